"""GenJson.v (C05): the JSON writer `manifest_json_ex_buf`, its entry `manifest_json_ex` and the JsonFormat
constructors of crates/jrsonnet-evaluator/src/manifest.rs, translated STATEMENT BY STATEMENT into Gallina
over the vocabulary of C05/Model.v (jval, opts, mtype, escape_buf, rep_bytes).

How the text is read.  The function body is tokenised and parsed into blocks of statements:
    let [mut] x = e;   x = e;   e;   if c {..} [else {..}]   if let Some(t) = options.debug_truncate_strings {..} else {..}
    match e { pat [| pat]* [if guard] => stmt-or-block, .. }       for (i, p) in e.iter().enumerate() {..}
Every statement becomes one Gallina binding in the option monad over the mutable variables in scope, which are
threaded explicitly in source order: `buf` (the bytes pushed so far), `cur_padding`, and the `let mut` locals
(had_items / had_fields).  A nested block evaluates to `option (tuple of the mutable variables)`; `?` and
`bail!` are `None`.  `for` loops become a local `fix` over the element list carrying the index `i` and the
mutable variables; the recursive call is the recursive call.  `match mtype {..}` becomes a Gallina `match`
on the four JsonFormatting variants (read from the enum); for each variant the arms are tried in source
order, a guarded arm becomes `if guard then body else <next arm that lists the variant>`.

What is NOT modelled and therefore skipped with a check that it is exactly the known text:
  * arms/arguments/fields under #[cfg(feature = "exp-bigint" | "exp-preserve-order")] (features off in the harness
    build and in the released binaries; any other attribute is an error);
  * `x.with_description(..)?` and `in_description_frame(|| .., || CALL)?` only decorate errors: CALL is translated;
  * `obj.run_assertions()?` (object assertions are C02's subject; the value tree has none);
  * the `if let Some(truncate) = options.debug_truncate_strings` THEN-branch: every translated constructor is
    checked to set the field to None (JsonFormat::debug(), the only other one, is covered by C05's trace run),
    so the ELSE-branch is what is translated.
Number rendering (`write!(buf, "{n}")`) appends the opaque token of JNum; string escaping is the model's
[escape_buf] (itself tied to the ESCAPE table by Gen/GenEscape.v).

FAIL CLOSED: any token, statement, expression, pattern, guard, field or attribute outside this subset raises
TranslateError.  Nothing of the emitted function bodies is fixed text: drop the truncate, change a separator,
reorder two pushes or remove an empty-container arm in the Rust and the emitted Gallina changes with it.
"""
import re

from gen import TranslateError, generator, src

MANIFEST_RS = "crates/jrsonnet-evaluator/src/manifest.rs"
IGNORED_FEATURES = {"exp-bigint", "exp-preserve-order"}
MODEL_MTYPES = ["Manifest", "Std", "ToString", "Minify"]


def err(msg):
    raise TranslateError("jsonwriter: " + msg)


# ------------------------------------------------------------------ lexing
TOK = re.compile(
    r'\s*(?:(?P<str>"(?:[^"\\]|\\.)*")|(?P<chr>\'(?:[^\'\\]|\\.)\')|(?P<id>[A-Za-z_]\w*)|(?P<num>\d+)'
    r"|(?P<op>::|=>|!=|==|&&|\|\||->|[{}()\[\],;:.=!&|*?<>#+\-/]))")


def strip_comments(text):
    out, i, n = [], 0, len(text)
    while i < n:
        c = text[i]
        if c == '"':
            j = i + 1
            while j < n and text[j] != '"':
                j += 2 if text[j] == "\\" else 1
            out.append(text[i:j + 1])
            i = j + 1
        elif text.startswith("//", i):
            while i < n and text[i] != "\n":
                i += 1
        elif text.startswith("/*", i):
            err("block comment in a translated function")
        else:
            out.append(c)
            i += 1
    return "".join(out)


def tokenize(text):
    toks, i = [], 0
    text = text.rstrip()
    while i < len(text):
        m = TOK.match(text, i)
        if not m:
            err(f"cannot tokenise at `{text[i:i + 30].strip()}`")
        toks.append(m.group(m.lastgroup))
        i = m.end()
    return toks


OPEN, CLOSE = {"(": ")", "[": "]", "{": "}"}, {")", "]", "}"}


def drop_cfg(toks, dropped):
    """remove `#[cfg(feature = "F")] ITEM` for the ignored features; ITEM is a match arm (pattern => block or
    expression), a call argument or a struct-literal field: everything up to the `,` that ends it"""
    out, i = [], 0
    while i < len(toks):
        if toks[i] == "#":
            head = toks[i:i + 9]
            if not (len(head) == 9 and head[1:6] == ["[", "cfg", "(", "feature", "="] and head[7:9] == [")", "]"]
                    and head[6].startswith('"')):
                err(f"unrecognised attribute `{' '.join(toks[i:i + 10])}`")
            feat = head[6][1:-1]
            if feat not in IGNORED_FEATURES:
                err(f"attribute for unknown feature {feat}")
            dropped.append(feat)
            j, depth = i + 9, 0
            while j < len(toks):
                t = toks[j]
                if t in OPEN:
                    depth += 1
                elif t in CLOSE:
                    if depth == 0:
                        break              # last item of the list, no trailing comma
                    depth -= 1
                    if depth == 0 and t == "}" and j + 1 < len(toks) and toks[j + 1] != ",":
                        # a block-bodied match arm without trailing comma ends at its `}`
                        if "=>" in toks[i + 9:j]:
                            j += 1
                            break
                elif t == "," and depth == 0:
                    j += 1
                    break
                j += 1
            i = j
            continue
        out.append(toks[i])
        i += 1
    return out


def is_word(t):
    return bool(re.match(r"[A-Za-z_0-9]", t[0])) and not t.startswith('"') and not t.startswith("'")


def join(toks):
    s = ""
    for k, t in enumerate(toks):
        if k and is_word(toks[k - 1]) and is_word(t):
            s += " "
        s += t
    return s


# ------------------------------------------------------------------ parsing into statements
class Parser:
    def __init__(self, toks):
        self.t, self.i = toks, 0

    def peek(self, k=0):
        return self.t[self.i + k] if self.i + k < len(self.t) else None

    def eat(self, tok):
        if self.peek() != tok:
            err(f"`{tok}` expected, found `{self.peek()}` near `{join(self.t[max(0, self.i - 6):self.i + 4])}`")
        self.i += 1

    def until(self, stops, consume=True):
        """tokens up to one of `stops` at bracket depth 0"""
        out, depth = [], 0
        while True:
            t = self.peek()
            if t is None:
                if depth == 0 and "}" in stops:
                    break                  # the final expression of a function body
                err(f"end of text while looking for {stops}")
            if depth == 0 and t in stops:
                break
            if t in OPEN:
                depth += 1
            elif t in CLOSE:
                if depth == 0:
                    err(f"unbalanced `{t}`")
                depth -= 1
            out.append(t)
            self.i += 1
        return out

    def block(self):
        self.eat("{")
        stmts = self.stmts()
        self.eat("}")
        return stmts

    def stmts(self):
        out = []
        while self.peek() is not None and self.peek() != "}":
            out.append(self.stmt())
        return out

    def stmt(self):
        t = self.peek()
        if t == "use":
            body = self.until([";"])
            self.eat(";")
            return ("use", join(body))
        if t == "if":
            return self.if_stmt()
        if t == "match":
            self.i += 1
            scrut = self.until(["{"])
            self.eat("{")
            arms = []
            while self.peek() != "}":
                pat = self.until(["=>"])
                self.eat("=>")
                guard = None
                # split `pats if guard` at the top-level `if`
                if "if" in pat:
                    k = pat.index("if")
                    pat, guard = pat[:k], join(pat[k + 1:])
                pats = [p for p in join(pat).split("|")]
                if self.peek() == "{":
                    body = self.block()
                    if self.peek() == ",":
                        self.i += 1
                else:
                    e = self.until([",", "}"])
                    if self.peek() == ",":
                        self.i += 1
                    body = [("simple", join(e))]
                arms.append((pats, guard, body))
            self.eat("}")
            return ("match", join(scrut), arms)
        if t == "for":
            self.i += 1
            pat = self.until(["in"])
            self.eat("in")
            it = self.until(["{"])
            return ("for", join(pat), join(it), self.block())
        body = self.until([";", "}"])
        if self.peek() == ";":
            self.i += 1
            return ("simple", join(body))
        return ("tail", join(body))

    def if_stmt(self):
        self.eat("if")
        cond = self.until(["{"])
        then = self.block()
        els = None
        if self.peek() == "else":
            self.i += 1
            els = [self.if_stmt()] if self.peek() == "if" else self.block()
        return ("if", join(cond), then, els)


def fn_tokens(text, header_re, what):
    ms = list(re.finditer(header_re, text))
    if len(ms) != 1:
        err(f"{what}: expected one match of the header, found {len(ms)}")
    i = ms[0].end() - 1
    if text[i] != "{":
        err(f"{what}: header does not end in an opening brace")
    depth, j, in_str = 0, i, False
    while j < len(text):
        c = text[j]
        if in_str:
            if c == "\\":
                j += 1
            elif c == '"':
                in_str = False
        elif c == '"':
            in_str = True
        elif c == "{":
            depth += 1
        elif c == "}":
            depth -= 1
            if depth == 0:
                return tokenize(text[i + 1:j]), ms[0]
        j += 1
    err(f"{what}: unbalanced braces")


# ------------------------------------------------------------------ literals
def rust_bytes(lit):
    out, i = [], 0
    while i < len(lit):
        c = lit[i]
        if c == "\\":
            i += 1
            m = {"n": 10, "t": 9, "r": 13, "\\": 92, '"': 34, "'": 39, "0": 0}
            if i >= len(lit) or lit[i] not in m:
                err(f"unsupported escape in literal `{lit}`")
            out.append(m[lit[i]])
        else:
            out.extend(c.encode("utf-8"))
        i += 1
    return out


def nlist(xs):
    return "[" + "; ".join(str(x) for x in xs) + "]"


# ------------------------------------------------------------------ translation of the writer
class Writer:
    """kinds: bytes, bool, nat, jval, jlist, jfields, mtype, opts"""

    def __init__(self, fname, variants):
        self.fname = fname
        self.variants = variants
        self.notes = []

    # -- expressions
    def text_expr(self, e, env):
        """an expression of Rust type &str / String / char pushed to a buffer -> Gallina bytes"""
        m = re.fullmatch(r'"((?:[^"\\]|\\.)*)"', e)
        if m:
            return nlist(rust_bytes(m.group(1)))
        m = re.fullmatch(r"'((?:[^'\\]|\\.))'", e)
        if m:
            return nlist(rust_bytes(m.group(1)))
        m = re.fullmatch(r"&?(\w+)\.(padding|newline|key_val_sep)", e)
        if m and env.get(m.group(1)) == "opts":
            return f"{ {'padding': 'o_padding', 'newline': 'o_newline', 'key_val_sep': 'o_kvsep'}[m.group(2)]} r_{m.group(1)}"
        m = re.fullmatch(r"&?(\w+)", e)
        if m and env.get(m.group(1)) == "bytes":
            return f"r_{m.group(1)}"
        err(f"{self.fname}: untranslatable text expression `{e}`")

    def cond(self, c, env):
        m = re.fullmatch(r"\*(\w+)", c)
        if m and env.get(m.group(1)) == "bool":
            return f"r_{m.group(1)}"
        m = re.fullmatch(r"(\w+)", c)
        if m and env.get(m.group(1)) == "bool":
            return f"r_{m.group(1)}"
        m = re.fullmatch(r"!(\w+)", c)
        if m and env.get(m.group(1)) == "bool":
            return f"negb r_{m.group(1)}"
        m = re.fullmatch(r"(\w+)(!=|==)(\d+)", c)
        if m and env.get(m.group(1)) == "nat":
            t = f"Nat.eqb r_{m.group(1)} {m.group(3)}"
            return f"negb ({t})" if m.group(2) == "!=" else t
        err(f"{self.fname}: untranslatable condition `{c}`")

    # -- statements
    def tuple_of(self, mvars):
        return "(" + ", ".join("r_" + v for v in mvars) + ")"

    def block(self, stmts, env, mvars, final, ind):
        """Gallina term of type option T for the statement list; `final(env, mvars)` gives the term that ends
        a block that falls through"""
        if not stmts:
            return final(env, mvars)
        st, rest = stmts[0], stmts[1:]
        pad = "  " * ind
        env = dict(env)
        kind = st[0]

        def go(env=env, mvars=mvars):
            return self.block(rest, env, mvars, final, ind)

        def bind(name, term, k, mut=False):
            env[name] = k
            mv = mvars + [name] if (mut and name not in mvars) else mvars
            return f"let r_{name} := {term} in\n{pad}" + self.block(rest, env, mv, final, ind)

        def monadic(term):
            """term : option (tuple mvars)"""
            return (f"match {term} with\n{pad}| None => None\n{pad}| Some {self.tuple_of(mvars)} =>\n{pad}  "
                    + self.block(rest, env, mvars, final, ind + 1) + f"\n{pad}end")

        if kind == "use":
            if st[1] != "use JsonFormatting::*":
                err(f"{self.fname}: unexpected `{st[1]}`")
            return go()

        if kind == "tail":
            if rest:
                err(f"{self.fname}: statements after the final expression `{st[1]}`")
            return self.tail(st[1], env, mvars, final)

        if kind == "simple":
            s = st[1]
            # ---- pushes to a buffer
            m = re.fullmatch(r"(\w+)\.push_str\((.+)\)", s) or re.fullmatch(r"(\w+)\.push\((.+)\)", s)
            if m:
                tgt = m.group(1)
                if env.get(tgt) != "bytes" or tgt not in mvars:
                    err(f"{self.fname}: push to `{tgt}` which is not a mutable buffer")
                is_char = bool(re.fullmatch(r"'((?:[^'\\]|\\.))'", m.group(2)))
                if (".push(" in s[:len(tgt) + 6]) != is_char:
                    err(f"{self.fname}: push/push_str argument kind mismatch in `{s}`")
                return bind(tgt, f"r_{tgt} ++ {self.text_expr(m.group(2), env)}", "bytes")
            m = re.fullmatch(r"(\w+)\.truncate\((\w+)\)", s)
            if m and env.get(m.group(1)) == "bytes" and m.group(1) in mvars and env.get(m.group(2)) == "nat":
                return bind(m.group(1), f"firstn r_{m.group(2)} r_{m.group(1)}", "bytes")
            m = re.fullmatch(r"let (\w+)=(\w+)\.len\(\)", s)
            if m and env.get(m.group(2)) == "bytes":
                return bind(m.group(1), f"length r_{m.group(2)}", "nat")
            m = re.fullmatch(r"let mut (\w+)=(true|false)", s)
            if m:
                return bind(m.group(1), m.group(2), "bool", mut=True)
            m = re.fullmatch(r"let mut (\w+)=String::new\(\)", s)
            if m:
                return bind(m.group(1), "[]", "bytes", mut=True)
            m = re.fullmatch(r"(\w+)=(true|false)", s)
            if m and env.get(m.group(1)) == "bool" and m.group(1) in mvars:
                return bind(m.group(1), m.group(2), "bool")
            m = re.fullmatch(r"let (\w+)=(\w+)\.mtype", s)
            if m and env.get(m.group(2)) == "opts":
                return bind(m.group(1), f"o_mtype r_{m.group(2)}", "mtype")
            m = re.fullmatch(r"let (\w+)=(\w+)\.clone\(\)\.into_flat\(\)", s)
            if m and env.get(m.group(2)) == "bytes":
                return bind(m.group(1), f"r_{m.group(2)}", "bytes")
            m = re.fullmatch(r'let (\w+)=(\w+)\.with_description\(\|\|format!\("[^"]*"\)\)\?', s)
            if m and env.get(m.group(2)) == "jval":
                # forcing the lazy element/field; only the error text is decorated
                return bind(m.group(1), f"r_{m.group(2)}", "jval")
            m = re.fullmatch(r"(\w+)\.run_assertions\(\)\?", s)
            if m and env.get(m.group(1)) == "jfields":
                self.notes.append("obj.run_assertions()? skipped (object assertions are not part of the value tree)")
                return go()
            # ---- number
            m = re.fullmatch(r'write!\((\w+),"\{(\w+)\}"\)\.unwrap\(\)', s)
            if m and env.get(m.group(1)) == "bytes" and m.group(1) in mvars and env.get(m.group(2)) == "numtok":
                return bind(m.group(1), f"r_{m.group(1)} ++ r_{m.group(2)}", "bytes")
            # ---- string escaping
            m = re.fullmatch(r"escape_string_json_buf\(&(\w+),(\w+)\)", s)
            if m and env.get(m.group(1)) == "bytes" and env.get(m.group(2)) == "bytes" and m.group(2) in mvars:
                b = m.group(2)
                return (f"match escape_buf r_{m.group(1)} r_{b} with\n{pad}| None => None\n{pad}| Some r_{b} =>\n{pad}  "
                        + self.block(rest, env, mvars, final, ind + 1) + f"\n{pad}end")
            # ---- recursive call
            call = self.rec_call(s, env, mvars)
            if call:
                return call(lambda: self.block(rest, env, mvars, final, ind + 1), pad)
            m = re.fullmatch(r'bail!\("[^"{}]*"\)', s)
            if m:
                if rest:
                    err(f"{self.fname}: statements after bail!")
                return "None"
            err(f"{self.fname}: untranslatable statement `{s}`")

        if kind == "if":
            _, c, then, els = st
            m = re.fullmatch(r"let Some\((\w+)\)=(\w+)\.debug_truncate_strings", c)
            if m and env.get(m.group(2)) == "opts":
                if els is None:
                    err(f"{self.fname}: `if let Some(..) = options.debug_truncate_strings` without else")
                self.notes.append("debug_truncate_strings = None in every translated constructor: else-branch translated")
                inner = self.block(els, env, mvars, lambda e, mv: f"Some {self.tuple_of(mvars)}", ind + 1)
                return monadic(f"({inner})")
            ct = self.cond(c, env)
            fin = lambda e, mv: f"Some {self.tuple_of(mvars)}"  # noqa: E731
            a = self.block(then, env, mvars, fin, ind + 2)
            b = self.block(els, env, mvars, fin, ind + 2) if els is not None else fin(env, mvars)
            return monadic(f"(if {ct}\n{pad}  then {a}\n{pad}  else {b})")

        if kind == "match":
            _, scrut, arms = st
            if env.get(scrut) != "mtype":
                err(f"{self.fname}: match on `{scrut}` (only the top-level `match val` and `match mtype` are translated)")
            fin = lambda e, mv: f"Some {self.tuple_of(mvars)}"  # noqa: E731
            for pats, _, _ in arms:
                for p in pats:
                    if p not in self.variants:
                        err(f"{self.fname}: `{p}` is not a JsonFormatting variant")
            out = f"(match r_{scrut} with"
            for v in self.variants:
                mine = [(g, body) for pats, g, body in arms if v in pats]
                term = None
                chain = []
                for g, body in mine:
                    chain.append((g, body))
                    if g is None:
                        break
                else:
                    err(f"{self.fname}: match on mtype has no unguarded arm for {v}")
                term = self.block(chain[-1][1], env, mvars, fin, ind + 3)
                for g, body in reversed(chain[:-1]):
                    term = (f"if {self.cond(g, env)}\n{pad}      then {self.block(body, env, mvars, fin, ind + 3)}"
                            f"\n{pad}      else {term}")
                out += f"\n{pad}  | {v} =>\n{pad}      {term}"
            out += f"\n{pad}  end)"
            return monadic(out)

        if kind == "for":
            _, pat, it, body = st
            m = re.fullmatch(r"\((\w+),(\w+)\)", pat)
            m2 = re.fullmatch(r"\((\w+),\((\w+),(\w+)\)\)", pat)
            mi = re.fullmatch(r"(\w+)\.iter\(\)\.enumerate\(\)", it)
            if not mi:
                err(f"{self.fname}: untranslatable loop iterator `{it}`")
            coll = mi.group(1)
            benv = dict(env)
            if m and env.get(coll) == "jlist":
                idx, binder, ety = m.group(1), f"r_{m.group(2)}", "jval"
                benv[m.group(2)] = "jval"
            elif m2 and env.get(coll) == "jfields":
                idx, binder, ety = m2.group(1), f"(r_{m2.group(2)}, r_{m2.group(3)})", "(bytes * jval)"
                benv[m2.group(2)] = "bytes"
                benv[m2.group(3)] = "jval"
            else:
                err(f"{self.fname}: untranslatable loop `for {pat} in {it}`")
            benv[idx] = "nat"
            args = " ".join("r_" + v for v in mvars)
            params = " ".join(f"(r_{v} : {'bool' if env[v] == 'bool' else 'bytes'})" for v in mvars)
            rty = " * ".join("bool" if env[v] == "bool" else "bytes" for v in mvars)
            cont = lambda e, mv: f"loop (S r_{idx}) rest {args}"  # noqa: E731
            if mvars != [v for v in mvars if v in benv]:
                err("internal: mutable variable lost")
            btxt = self.block(body, benv, mvars, cont, ind + 3)
            loop = (f"(fix loop (r_{idx} : nat) (todo : list {ety}) {params} {{struct todo}} : option ({rty}) :=\n"
                    f"{pad}    match todo with\n{pad}    | [] => Some {self.tuple_of(mvars)}\n"
                    f"{pad}    | {binder} :: rest =>\n{pad}      {btxt}\n{pad}    end) 0%nat r_{coll} {args}")
            return monadic(loop)

        err(f"{self.fname}: unknown statement kind {kind}")

    def rec_call(self, s, env, mvars):
        inner = None
        m = re.fullmatch(r'in_description_frame\(\|\|format!\("[^"]*"\),\|\|(.+?),?\)\?', s)
        if m:
            inner = m.group(1)
        else:
            m = re.fullmatch(r"(manifest_json_ex_buf\(.+\))\?", s)
            if m:
                inner = m.group(1)
        if inner is None:
            return None
        m = re.fullmatch(r"manifest_json_ex_buf\(&?(\w+),(&mut )?(\w+),(?:(&mut )?(\w+)|&mut String::new\(\)),&?(\w+)\)", inner)
        if not m:
            err(f"{self.fname}: untranslatable call `{inner}`")
        val, buf, cur, opt = m.group(1), m.group(3), m.group(5), m.group(6)
        if env.get(val) != "jval" or env.get(buf) != "bytes" or buf not in mvars or env.get(opt) != "opts":
            err(f"{self.fname}: ill-kinded call `{inner}`")
        if cur is None:
            cur_t, cur_pat = "[]", "_"
        else:
            if env.get(cur) != "bytes" or cur not in mvars:
                err(f"{self.fname}: ill-kinded call `{inner}`")
            cur_t, cur_pat = f"r_{cur}", f"r_{cur}"

        def emit(rest, pad):
            return (f"match gen_manifest_json_ex_buf r_{opt} r_{val} r_{buf} {cur_t} with\n{pad}| None => None\n"
                    f"{pad}| Some (r_{buf}, {cur_pat}) =>\n{pad}  " + rest() + f"\n{pad}end")
        return emit

    def tail(self, s, env, mvars, final):
        if s == "Ok(())":
            return final(env, mvars)
        m = re.fullmatch(r"Ok\((\w+)\)", s)
        if m and env.get(m.group(1)) == "bytes":
            return f"Some r_{m.group(1)}"
        m = re.fullmatch(r'bail!\("[^"{}]*"\)', s)
        if m:
            return "None"
        # a tail expression that is a statement (match arm written without block)
        return self.block([("simple", s)], env, mvars, final, 2)

    # -- the function
    def writer(self, stmts):
        """body of manifest_json_ex_buf: [use], let mtype, match val {..}, Ok(())"""
        env = {"val": "jval", "buf": "bytes", "cur_padding": "bytes", "options": "opts"}
        mvars = ["buf", "cur_padding"]
        pre, k = [], 0
        while k < len(stmts) and stmts[k][0] in ("use", "simple"):
            pre.append(stmts[k])
            k += 1
        if k + 2 != len(stmts) or stmts[k][0] != "match" or stmts[k][1] != "val" or stmts[k + 1] != ("tail", "Ok(())"):
            err(f"{self.fname}: body is not `[use; let ..;] match val {{..}} Ok(())`")
        arms = stmts[k][2]
        fin = lambda e, mv: "Some (r_buf, r_cur_padding)"  # noqa: E731
        kinds = {"Bool": ("JBool", "bool"), "Str": ("JStr", "bytes"), "Num": ("JNum", "numtok"),
                 "Arr": ("JArr", "jlist"), "Obj": ("JObj", "jfields")}
        seen, arm_txt = [], []

        def arm_block(body, aenv):
            return self.block(body, aenv, mvars, fin, 3)

        for pats, guard, body in arms:
            if guard is not None or len(pats) != 1:
                err(f"{self.fname}: guarded / or-pattern arm in `match val`")
            p = pats[0]
            aenv = dict(self.env0)
            m = re.fullmatch(r"Val::(\w+)\((\w+)\)", p)
            if p == "Val::Null":
                seen.append("Null")
                arm_txt.append(f"  | JNull =>\n      {arm_block(body, aenv)}")
            elif m and m.group(1) in kinds:
                ctor, kd = kinds[m.group(1)]
                aenv[m.group(2)] = kd
                seen.append(m.group(1))
                arm_txt.append(f"  | {ctor} r_{m.group(2)} =>\n      {arm_block(body, aenv)}")
            elif m and m.group(1) == "Func" and m.group(2) == "_":
                seen.append("Func")
                arm_txt.append(f"  | JFun =>\n      {arm_block(body, aenv)}")
            else:
                err(f"{self.fname}: untranslatable pattern `{p}` in `match val`")
        if sorted(seen) != sorted(["Null", "Bool", "Str", "Num", "Arr", "Obj", "Func"]):
            err(f"{self.fname}: `match val` arms are {seen}, expected one per Val kind")
        return pre, arm_txt

    def translate_writer(self, stmts):
        env = {"val": "jval", "buf": "bytes", "cur_padding": "bytes", "options": "opts"}
        # the prelude (use / let mtype) is translated in front of the match by making it part of a block whose
        # final statement is the match itself
        pre = []
        k = 0
        while k < len(stmts) and stmts[k][0] in ("use", "simple"):
            pre.append(stmts[k])
            k += 1
        self.env0 = env
        # kinds introduced by the prelude
        for st in pre:
            if st[0] == "simple":
                m = re.fullmatch(r"let (\w+)=options\.mtype", st[1])
                if not m:
                    err(f"{self.fname}: unexpected prelude statement `{st[1]}`")
                self.env0 = dict(self.env0)
                self.env0[m.group(1)] = "mtype"
        _, arm_txt = self.writer(stmts)
        lets = ""
        for st in pre:
            if st[0] == "use":
                if st[1] != "use JsonFormatting::*":
                    err(f"{self.fname}: unexpected `{st[1]}`")
            else:
                m = re.fullmatch(r"let (\w+)=options\.mtype", st[1])
                lets += f"  let r_{m.group(1)} := o_mtype r_options in\n"
        return lets + "  match r_val with\n" + "\n".join(arm_txt) + "\n  end"


# ------------------------------------------------------------------ constructors
def translate_ctor(toks, what, params, variants, dropped):
    """body of a JsonFormat constructor -> Gallina term of type opts.
    params: rust name -> kind ('bytes' | 'nat')"""
    toks = drop_cfg(toks, dropped)
    p = Parser(toks)
    stmts = p.stmts()
    if p.peek() is not None:
        err(f"{what}: trailing tokens")

    def self_lit(s):
        m = re.fullmatch(r"Self\{(.*)\}", s)
        if not m:
            err(f"{what}: `Self {{..}}` expected, found `{s[:60]}`")
        fields = {}
        # split at top-level commas
        depth, cur, parts = 0, "", []
        for ch in m.group(1):
            if ch in "([{":
                depth += 1
            elif ch in ")]}":
                depth -= 1
            if ch == "," and depth == 0:
                parts.append(cur)
                cur = ""
            else:
                cur += ch
        if cur.strip():
            parts.append(cur)
        for part in parts:
            if ":" in part and not part.startswith('"'):
                k, v = part.split(":", 1)
            else:
                k, v = part, part          # shorthand
            if k in fields:
                err(f"{what}: field {k} twice")
            fields[k] = v
        want = {"padding", "mtype", "newline", "key_val_sep", "debug_truncate_strings"}
        if set(fields) != want:
            err(f"{what}: fields {sorted(fields)} (expected {sorted(want)})")
        if fields["debug_truncate_strings"] != "None":
            err(f"{what}: debug_truncate_strings is `{fields['debug_truncate_strings']}`, the model has no truncation")

        def text(v, allow_repeat=False):
            m = re.fullmatch(r'(?:Cow::Borrowed\()?"((?:[^"\\]|\\.)*)"\)?', v)
            if m and (v.startswith("Cow::Borrowed(") == v.endswith(")")):
                return nlist(rust_bytes(m.group(1)))
            m = re.fullmatch(r"(?:Cow::Owned\()?(\w+)\)?", v)
            if m and params.get(m.group(1)) == "bytes" and (v.startswith("Cow::Owned(") == v.endswith(")")):
                return f"r_{m.group(1)}"
            m = re.fullmatch(r'Cow::Owned\("((?:[^"\\]|\\.)*)"\.repeat\((\w+)\)\)', v)
            if m and allow_repeat and params.get(m.group(2)) == "nat":
                return f"(rep_bytes r_{m.group(2)} {nlist(rust_bytes(m.group(1)))})"
            err(f"{what}: untranslatable field value `{v}`")
        m = re.fullmatch(r"JsonFormatting::(\w+)", fields["mtype"])
        if not m or m.group(1) not in variants:
            err(f"{what}: unknown mtype `{fields['mtype']}`")
        return (f"mkOpts {m.group(1)} {text(fields['padding'], True)} {text(fields['newline'])} "
                f"{text(fields['key_val_sep'])}")

    def go(stmts):
        if not stmts:
            err(f"{what}: no result")
        st = stmts[0]
        if st[0] == "tail":
            if len(stmts) != 1:
                err(f"{what}: statements after the result")
            return self_lit(st[1])
        if st[0] == "if" and st[3] is None:
            m = re.fullmatch(r"(\w+)==(\d+)", st[1])
            if m and params.get(m.group(1)) == "nat" and len(st[2]) == 1 and st[2][0][0] == "simple":
                r = re.fullmatch(r"return Self::(\w+)\(\)", st[2][0][1])
                if r and r.group(1) == "minify":
                    return f"if Nat.eqb r_{m.group(1)} {m.group(2)} then gen_fmt_minify else {go(stmts[1:])}"
        err(f"{what}: untranslatable statement `{st[1][:60] if len(st) > 1 else st}`")
    return go(stmts)


@generator("GenJson")
def gen_json():
    text = strip_comments(src(MANIFEST_RS))
    # ---- the JsonFormatting enum
    m = re.search(r"enum JsonFormatting \{(.*?)\}", text, re.S)
    if not m:
        err("enum JsonFormatting not found")
    variants = [v.strip() for v in m.group(1).split(",") if v.strip()]
    if variants != MODEL_MTYPES:
        err(f"JsonFormatting variants are {variants}, the model has {MODEL_MTYPES}")
    dropped = []
    # ---- manifest_json_ex_buf
    toks, hm = fn_tokens(
        text,
        r"fn manifest_json_ex_buf\(\s*val: &Val,\s*buf: &mut String,\s*cur_padding: &mut String,\s*options: &JsonFormat<'_>,\s*\)"
        r" -> Result<\(\)> \{", "manifest_json_ex_buf")
    toks = drop_cfg(toks, dropped)
    p = Parser(toks)
    stmts = p.stmts()
    if p.peek() is not None:
        err("manifest_json_ex_buf: trailing tokens")
    w = Writer("manifest_json_ex_buf", variants)
    body = w.translate_writer(stmts)
    # ---- manifest_json_ex (entry: fresh buffer, fresh cur_padding)
    toks2, _ = fn_tokens(text, r"pub fn manifest_json_ex\(val: &Val, options: &JsonFormat<'_>\) -> Result<String> \{",
                         "manifest_json_ex")
    p2 = Parser(drop_cfg(toks2, dropped))
    st2 = p2.stmts()
    w2 = Writer("manifest_json_ex", variants)
    entry = w2.block(st2, {"val": "jval", "options": "opts"}, [], lambda e, mv: err("manifest_json_ex: no result"), 1)
    # ---- ManifestFormat for JsonFormat: manifest_buf(&self, val, buf) = manifest_json_ex_buf(&val, buf, &mut String::new(), self)
    toks3, _ = fn_tokens(text, r"impl ManifestFormat for JsonFormat<'_> \{\s*fn manifest_buf\(&self, val: Val, buf: &mut String\)"
                               r" -> Result<\(\)> \{", "JsonFormat::manifest_buf")
    s3 = join(toks3)
    if s3 != "manifest_json_ex_buf(&val,buf,&mut String::new(),self)":
        err(f"JsonFormat::manifest_buf is `{s3}`")
    # ---- constructors
    ctors = []
    for name, hdr, params, sig in (
        ("minify", r"pub fn minify\(\s*(?:#\[cfg\(feature = \"exp-preserve-order\"\)\] preserve_order: bool)?\s*\) -> Self \{",
         {}, ""),
        ("std_to_string_helper", r"const fn std_to_string_helper\(\) -> Self \{", {}, ""),
        ("std_to_json", r"pub fn std_to_json\(\s*padding: String,\s*newline: &'s str,\s*key_val_sep: &'s str,\s*"
                        r"(?:#\[cfg\(feature = \"exp-preserve-order\"\)\] preserve_order: bool,)?\s*\) -> Self \{",
         {"padding": "bytes", "newline": "bytes", "key_val_sep": "bytes"},
         " (r_padding r_newline r_key_val_sep : bytes)"),
        ("cli", r"pub fn cli\(\s*padding: usize,\s*(?:#\[cfg\(feature = \"exp-preserve-order\"\)\] preserve_order: bool,)?\s*\)"
                r" -> Self \{", {"padding": "nat"}, " (r_padding : nat)"),
        ("default", r"impl Default for JsonFormat<'static> \{\s*fn default\(\) -> Self \{", {}, ""),
    ):
        ct, _ = fn_tokens(text, hdr, name)
        term = translate_ctor(ct, name, params, variants, dropped)
        ctors.append(f"Definition gen_fmt_{name}{sig} : opts :=\n  {term}.\n")
    feats = ", ".join(f"{f} x{dropped.count(f)}" for f in sorted(set(dropped)))
    notes = "".join(f"   - {n}\n" for n in sorted(set(w.notes)))
    return (
        "From Coq Require Import List NArith Bool Arith.\n"
        "From JrV Require Import C05.Model.\n"
        "Import ListNotations.\nOpen Scope N_scope.\n"
        f"(* items under #[cfg(feature)] left out: {feats}\n{notes}*)\n"
        "(* manifest_json_ex_buf(val, buf, cur_padding, options): Some (buf, cur_padding) after the call = Ok(()),\n"
        "   None = Err (bail! / a failing `?`) *)\n"
        "Fixpoint gen_manifest_json_ex_buf (r_options : opts) (r_val : jval) (r_buf r_cur_padding : bytes) {struct r_val}\n"
        "  : option (bytes * bytes) :=\n"
        f"{body}.\n"
        "(* manifest_json_ex(val, options) *)\n"
        "Definition gen_manifest_json_ex (r_options : opts) (r_val : jval) : option bytes :=\n"
        f"  {entry}.\n"
        "(* JsonFormat constructors *)\n" + "".join(ctors)
    )
