"""GenTls.v: the bracket protocols that touch thread-local / per-State mutable interpreter state outside the
value caches, read statement by statement from the working tree:

  obj/mod.rs  start_asserting / finish_asserting / ObjValue::run_assertions   (RUNNING_ASSERTIONS)
  lib.rs      State::try_enter / State::enter / Drop for StateEnterGuard      (STATE : Option<State>)
  lib.rs      State::import_resolved                                          (FileData.evaluating)
  lib.rs      in_frame / in_description_frame                                 (hold the StackDepthGuard of
              stack.rs, whose own transformers are Gen/GenStack.v -- reused, not duplicated)

For every protocol the translator walks the statements in order and decides from their POSITION which path
executes them: statements before the fallible call -> `before`; a restore inside `.inspect_err(|_| {..})` or
an `Err` match arm -> `after_err` only; a restore after a `?` / inside the `Ok` arm -> `after_ok` only; a
restore after a `let res = call;` that has no `?` (or in a Drop guard) -> both.  Nothing is emitted as a
fixed text: every `gen_*` body below is assembled from what the statements say.  Anything the walker does
not recognise raises TranslateError (fail closed).
"""
import re

from gen import TranslateError, generator, src

OBJ = "crates/jrsonnet-evaluator/src/obj/mod.rs"
LIB = "crates/jrsonnet-evaluator/src/lib.rs"


def strip_comments(t):
    return re.sub(r"//[^\n]*", "", t)


def body_of(text, header_re, what):
    ms = list(re.finditer(header_re, text))
    if len(ms) != 1:
        raise TranslateError(f"{what}: expected exactly one definition, found {len(ms)}")
    i = text.index("{", ms[0].end() - 1)
    depth, j, instr = 0, i, False
    while j < len(text):
        c = text[j]
        if instr:
            if c == "\\":
                j += 1
            elif c == '"':
                instr = False
        elif c == '"':
            instr = True
        elif c == "{":
            depth += 1
        elif c == "}":
            depth -= 1
            if depth == 0:
                return text[i + 1:j]
        j += 1
    raise TranslateError(f"{what}: unbalanced braces")


def split_stmts(body, what):
    """top-level statements of a block: `...;`, block statements (`if/for/match/while/loop {..}` with their
    else-chains), and a final expression without `;`"""
    out, depth, instr, start, j = [], 0, False, 0, 0
    n = len(body)
    while j < n:
        c = body[j]
        if instr:
            if c == "\\":
                j += 1
            elif c == '"':
                instr = False
        elif c == '"':
            instr = True
        elif c in "({[":
            depth += 1
        elif c in ")}]":
            depth -= 1
            if depth < 0:
                raise TranslateError(f"{what}: unbalanced block")
            if depth == 0 and c == "}":
                head = body[start:j + 1].strip()
                if re.match(r"(if|for|match|while|loop)\b", head):
                    rest = body[j + 1:].lstrip()
                    if not rest.startswith("else") and not rest.startswith(".") and not rest.startswith("?"):
                        out.append(head)
                        start = j + 1
        elif c == ";" and depth == 0:
            out.append(body[start:j].strip() + ";")
            start = j + 1
        j += 1
    tail = body[start:].strip()
    if tail:
        out.append(tail)
    return [s for s in out if s and s != ";"]


def norm(s):
    return re.sub(r"\s+", " ", s).strip()


def braced_after(s, k, what):
    """s[k] == '{' -> (inner, index after the closing brace)"""
    if k >= len(s) or s[k] != "{":
        raise TranslateError(f"{what}: `{{` expected")
    depth, instr = 0, False
    for j in range(k, len(s)):
        c = s[j]
        if instr:
            if c == '"':
                instr = False
        elif c == '"':
            instr = True
        elif c == "{":
            depth += 1
        elif c == "}":
            depth -= 1
            if depth == 0:
                return s[k + 1:j], j + 1
    raise TranslateError(f"{what}: unbalanced block")


# ------------------------------------------------------------------ RUNNING_ASSERTIONS
SET_OPS = {"insert": "ts_insert", "remove": "ts_remove"}


def set_helper(text, name):
    """start_asserting / finish_asserting: the one HashSet operation done on RUNNING_ASSERTIONS.
    -> (op, returns_op_result)"""
    what = f"obj/mod.rs {name}"
    body = norm(strip_comments(body_of(text, r"\bfn\s+" + name + r"\s*\(\s*obj\s*:\s*&ObjValue\s*\)[^{;]*\{", what)))
    m = re.fullmatch(r"RUNNING_ASSERTIONS\s*\.\s*with_borrow_mut\s*\(\s*\|\s*v\s*\|\s*(.*)\)\s*;?", body)
    if not m:
        raise TranslateError(f"{what}: not a single RUNNING_ASSERTIONS.with_borrow_mut(|v| ..)")
    inner = m.group(1).strip()
    m1 = re.fullmatch(r"v\s*\.\s*(insert|remove)\s*\(\s*obj(?:\s*\.\s*clone\s*\(\s*\))?\s*\)", inner)
    if m1:
        return m1.group(1), True
    if inner.startswith("{") and inner.endswith("}"):
        stmts = split_stmts(inner[1:-1], what)
        ops = []
        for s in stmts:
            s = norm(s)
            m2 = re.fullmatch(r"(?:let \w+ = )?v\s*\.\s*(insert|remove)\s*\(\s*obj(?:\s*\.\s*clone\s*\(\s*\))?\s*\)\s*;", s)
            if m2:
                ops.append(m2.group(1))
            elif re.fullmatch(r"debug_assert!\s*\(.*\)\s*;", s):
                continue            # release builds: no effect; debug builds: panic, outside the model
            else:
                raise TranslateError(f"{what}: untranslatable statement `{s[:60]}`")
        if len(ops) == 1:
            return ops[0], False
    raise TranslateError(f"{what}: untranslatable body `{inner[:60]}`")


def apply_ops(ops, helpers, what):
    """ops: helper names called in order on `self` -> Gallina term over (o, s)"""
    term = "s"
    for h in ops:
        if h not in helpers:
            raise TranslateError(f"{what}: unknown helper {h}")
        term = f"({SET_OPS[helpers[h][0]]} o {term})"
    return term


def handler_ops(block, what):
    ops = []
    for s in split_stmts(block, what):
        m = re.fullmatch(r"(start_asserting|finish_asserting)\s*\(\s*self\s*\)\s*;?", norm(s))
        if not m:
            raise TranslateError(f"{what}: untranslatable statement in the error handler `{norm(s)[:60]}`")
        ops.append(m.group(1))
    return ops


def gen_run_assertions(text):
    what = "obj/mod.rs run_assertions"
    helpers = {"start_asserting": set_helper(text, "start_asserting"),
               "finish_asserting": set_helper(text, "finish_asserting")}
    if not helpers["start_asserting"][1]:
        raise TranslateError("obj/mod.rs start_asserting does not return the result of the set operation")
    body = strip_comments(body_of(text, r"pub fn run_assertions\s*\(\s*&self\s*\)\s*->\s*Result<\(\)>\s*\{", what))
    stmts = split_stmts(body, what)
    phase = "pre"          # pre -> started -> (loop seen) post
    runs_when = None
    before, after_ok, after_err = [], [], None
    for st in stmts:
        s = norm(st)
        if re.fullmatch(r"if self\.0\.assertions_ran\.get\(\) \{ return Ok\(\(\)\); \}", s):
            if phase != "pre":
                raise TranslateError(f"{what}: assertions_ran gate after the set was touched")
            continue                       # value-cache gate: returns before any thread-local write
        m = re.fullmatch(r"if (!?) ?start_asserting\(self\) \{ return Ok\(\(\)\); \}", s)
        if m:
            if phase != "pre":
                raise TranslateError(f"{what}: second start_asserting")
            phase = "started"
            before.append("start_asserting")
            runs_when = "started" if m.group(1) == "!" else "(negb started)"
            continue
        if re.fullmatch(r"start_asserting\(self\);", s):
            if phase != "pre":
                raise TranslateError(f"{what}: second start_asserting")
            phase = "started"
            before.append("start_asserting")
            runs_when = "true"
            continue
        if s.startswith("for "):
            if phase != "started" or after_err is not None:
                raise TranslateError(f"{what}: assertion loop in an unexpected position")
            k = st.index("{")
            inner, end = braced_after(st, k, what)
            if st[end:].strip():
                raise TranslateError(f"{what}: text after the loop body")
            fallible = 0
            for ls in split_stmts(strip_comments(inner), what):
                l = norm(ls)
                if "?" not in l and not re.search(r"\b(return|bail!|start_asserting|finish_asserting|RUNNING_ASSERTIONS)\b", l):
                    if not re.match(r"let \w+ = ", l):
                        raise TranslateError(f"{what}: untranslatable loop statement `{l[:60]}`")
                    continue
                # the fallible call
                m = re.fullmatch(r"[\w.]+\s*\.\s*run_assertions_core\s*\(\s*\w+\s*\)\s*(.*?)\?\s*;", l)
                if not m:
                    raise TranslateError(f"{what}: untranslatable fallible statement `{l[:80]}`")
                fallible += 1
                mid = m.group(1).strip()
                if mid == "":
                    after_err = []         # plain `?`: the error leaves the function right here
                else:
                    m2 = re.fullmatch(r"\.\s*inspect_err\s*\(\s*\|\s*_?\w*\s*\|\s*(.*)\)", mid)
                    if not m2:
                        raise TranslateError(f"{what}: untranslatable error adapter `{mid[:60]}`")
                    h = m2.group(1).strip()
                    if h.startswith("{") and h.endswith("}"):
                        h = h[1:-1]
                    after_err = handler_ops(h, what)
            if fallible != 1:
                raise TranslateError(f"{what}: expected exactly one fallible call in the loop, found {fallible}")
            phase = "post"
            continue
        m = re.fullmatch(r"(start_asserting|finish_asserting)\(self\);", s)
        if m:
            if phase == "post":
                after_ok.append(m.group(1))
            elif phase == "started":
                before.append(m.group(1))
            else:
                raise TranslateError(f"{what}: {m.group(1)} before start_asserting")
            continue
        if re.fullmatch(r"self\.0\.assertions_ran\.set\(true\);", s):
            continue                       # value cache, not thread-local
        if s == "Ok(())":
            continue
        raise TranslateError(f"{what}: untranslatable statement `{s[:80]}`")
    if phase != "post" or after_err is None or runs_when is None:
        raise TranslateError(f"{what}: protocol incomplete (start / loop / finish not all found)")
    start_op = SET_OPS[helpers["start_asserting"][0]]
    started = {"ts_insert": "(negb (ts_mem o s))", "ts_remove": "(ts_mem o s)"}[start_op]
    return (
        "(* RUNNING_ASSERTIONS; s = the set as a list of object ids, o = the object *)\n"
        "(* start_asserting: (its return value, the set afterwards) *)\n"
        f"Definition gen_ra_start (o : nat) (s : list nat) : bool * list nat :=\n  ({started}, {apply_ops(before, helpers, what)}).\n"
        "(* does run_assertions go on to run the assertions, given start_asserting's return value *)\n"
        f"Definition gen_ra_runs (started : bool) : bool :=\n  {runs_when}.\n"
        "(* statements after the loop (all assertions passed) *)\n"
        f"Definition gen_ra_after_ok (o : nat) (s : list nat) : list nat :=\n  {apply_ops(after_ok, helpers, what)}.\n"
        "(* statements executed when an assertion fails, before the error leaves run_assertions *)\n"
        f"Definition gen_ra_after_err (o : nat) (s : list nat) : list nat :=\n  {apply_ops(after_err, helpers, what)}.\n")


# ------------------------------------------------------------------ STATE (current-state slot)
def opt_block(block, what):
    """statements `*v = Some(self.clone());` / `*v = None;` then the closure's value -> Gallina option (option nat)"""
    cur = "v"
    stmts = split_stmts(block, what)
    if not stmts:
        raise TranslateError(f"{what}: empty block")
    for s in stmts[:-1]:
        s = norm(s)
        if re.fullmatch(r"\*v = Some\(self\.clone\(\)\);", s):
            cur = "(Some st)"
        elif re.fullmatch(r"\*v = None;", s):
            cur = "None"
        else:
            raise TranslateError(f"{what}: untranslatable statement `{s[:60]}`")
    last = norm(stmts[-1])
    if re.fullmatch(r"Some\(StateEnterGuard\(PhantomData\)\)", last):
        return f"Some {cur}"
    if last == "None":
        if cur != "v":
            raise TranslateError(f"{what}: the slot is written on the path that returns no guard")
        return "None"
    raise TranslateError(f"{what}: untranslatable result `{last[:60]}`")


def gen_state_enter(text):
    what = "lib.rs State::try_enter"
    body = norm(strip_comments(body_of(text, r"pub fn try_enter\s*\(\s*&self\s*\)\s*->\s*Option<StateEnterGuard>\s*\{", what)))
    m = re.fullmatch(r"STATE\s*\.\s*with_borrow_mut\s*\(\s*\|\s*v\s*\|\s*\{(.*)\}\s*\)\s*;?", body)
    if not m:
        raise TranslateError(f"{what}: not a single STATE.with_borrow_mut(|v| {{..}})")
    inner = m.group(1).strip()
    mi = re.match(r"if (!?) ?v\.(is_none|is_some)\(\) ", inner)
    if mi:
        k = mi.end()
        then_b, e1 = braced_after(inner, k, what)
        rest = inner[e1:].strip()
        if not rest.startswith("else"):
            raise TranslateError(f"{what}: `if` without `else`")
        else_b, e2 = braced_after(rest, rest.index("{"), what)
        if rest[e2:].strip():
            raise TranslateError(f"{what}: statements after if/else")
        none_first = (mi.group(2) == "is_none") != (mi.group(1) == "!")
        t, e = opt_block(then_b, what), opt_block(else_b, what)
        on_none, on_some = (t, e) if none_first else (e, t)
        enter = f"match v with None => {on_none} | Some _ => {on_some} end"
    else:
        enter = opt_block(inner, what)
    # enter = try_enter().expect(..)
    eb = norm(strip_comments(body_of(text, r"pub fn enter\s*\(\s*&self\s*\)\s*->\s*StateEnterGuard\s*\{", "lib.rs State::enter")))
    if not re.fullmatch(r"self\.try_enter\(\)\s*\.expect\(\"[^\"]*\"\)", eb):
        raise TranslateError("lib.rs State::enter is not `self.try_enter().expect(..)`")
    what = "lib.rs StateEnterGuard::drop"
    db = norm(strip_comments(body_of(text, r"impl Drop for StateEnterGuard\s*\{\s*fn drop\s*\(&mut self\)\s*\{", what)))
    m = re.fullmatch(r"STATE\s*\.\s*with_borrow_mut\s*\(\s*\|\s*v\s*\|\s*(.*)\)\s*;?", db)
    if not m:
        raise TranslateError(f"{what}: not a single STATE.with_borrow_mut(|v| ..)")
    d = m.group(1).strip()
    if d.startswith("{") and d.endswith("}"):
        d = d[1:-1].strip()
    d = d.rstrip(";").strip()
    if d == "*v = None":
        drop = "None"
    else:
        raise TranslateError(f"{what}: untranslatable statement `{d[:60]}`")
    return (
        "(* STATE : RefCell<Option<State>>; v = the slot (states as ids), st = the entering state *)\n"
        "(* try_enter: None = no guard (enter() panics), Some v' = guard created, slot afterwards *)\n"
        f"Definition gen_enter (st : nat) (v : option nat) : option (option nat) :=\n  {enter}.\n"
        "(* Drop for StateEnterGuard: runs on the success and on the error path alike *)\n"
        f"Definition gen_enter_drop (v : option nat) : option nat :=\n  {drop}.\n")


# ------------------------------------------------------------------ FileData.evaluating
def flag_writes(block):
    return re.findall(r"\bfile\s*\.\s*evaluating\s*=\s*(true|false)\s*;", block)


def gen_import(text):
    what = "lib.rs import_resolved"
    body = strip_comments(body_of(text, r"pub fn import_resolved\s*\(\s*&self\s*,\s*path\s*:\s*SourcePath\s*\)\s*->\s*Result<Val>\s*\{", what))
    stmts = split_stmts(body, what)
    phase = "pre"            # pre -> set -> post
    blocked = None
    before = ok = err = "b"
    err_closed = False       # the error has already left the function
    exits = re.compile(r"\?|\bbail!|\breturn\b")
    for st in stmts:
        s = norm(st)
        m = re.fullmatch(r"if (!?) ?file\.evaluating \{ (?:bail!\(\w+\)|return Err\(.*\));? \}", s)
        if m:
            if phase != "pre" or blocked is not None:
                raise TranslateError(f"{what}: re-entrancy test in an unexpected position")
            blocked = "b" if m.group(1) == "" else "(negb b)"
            continue
        m = re.fullmatch(r"file\.evaluating = (true|false);", s)
        if m:
            if phase == "pre":
                phase = "set"
                before = m.group(1)
            elif phase == "set":
                before = m.group(1)
            else:
                ok = m.group(1)
                if not err_closed:
                    err = m.group(1)
            continue
        if re.search(r"\bevaluate\s*\(", s):
            if phase != "set":
                raise TranslateError(f"{what}: evaluate(..) before the evaluating flag is set")
            m = re.fullmatch(r"let res = evaluate\(.*\)(\??);", s)
            if not m:
                raise TranslateError(f"{what}: untranslatable evaluation statement `{s[:80]}`")
            phase = "post"
            if m.group(1) == "?":
                err_closed = True          # the error leaves here: later statements are success-path only
            continue
        if s.startswith("match res "):
            if phase != "post":
                raise TranslateError(f"{what}: `match res` before the evaluation")
            inner, end = braced_after(s, s.index("{"), what)
            mo = re.search(r"\bOk\s*\(\s*\w+\s*\)\s*=>", inner)
            me = re.search(r"\bErr\s*\(\s*\w+\s*\)\s*=>", inner)
            if not mo or not me or len(re.findall(r"=>", inner)) != 2:
                raise TranslateError(f"{what}: `match res` is not an Ok/Err pair")
            if mo.start() < me.start():
                ok_arm, err_arm = inner[mo.end():me.start()], inner[me.end():]
            else:
                err_arm, ok_arm = inner[me.end():mo.start()], inner[mo.end():]
            if len(re.findall(r"evaluating", ok_arm)) != len(flag_writes(ok_arm)) or \
                    len(re.findall(r"evaluating", err_arm)) != len(flag_writes(err_arm)):
                raise TranslateError(f"{what}: untranslatable use of `evaluating` in a match arm")
            for w in flag_writes(ok_arm):
                ok = w
            if not err_closed:
                for w in flag_writes(err_arm):
                    err = w
            err_closed = True
            continue
        if "evaluating" in s:
            raise TranslateError(f"{what}: untranslatable use of `evaluating`: `{s[:80]}`")
        if exits.search(s):
            if phase == "pre":
                continue                   # leaves before the flag is written
            if phase == "set":
                raise TranslateError(f"{what}: early exit between `evaluating = ..` and evaluate(): `{s[:60]}`")
            if re.search(r"\bres\s*\?", s) or re.search(r"\breturn\s+res\b", s):
                err_closed = True
                continue
            raise TranslateError(f"{what}: early exit after the evaluation: `{s[:60]}`")
        # statements that neither touch the flag nor leave the function
    if phase != "post" or blocked is None:
        raise TranslateError(f"{what}: protocol incomplete (test / set / evaluate not all found)")
    return (
        "(* FileData.evaluating of the imported file; b = the flag's current value *)\n"
        "(* the re-entrancy test: true = import_resolved fails (InfiniteRecursionDetected) without writing *)\n"
        f"Definition gen_imp_blocked (b : bool) : bool :=\n  {blocked}.\n"
        "(* the flag when evaluate() is called *)\n"
        f"Definition gen_imp_before (b : bool) : bool :=\n  {before}.\n"
        "(* the flag when import_resolved returns Ok / Err after the evaluation *)\n"
        f"Definition gen_imp_after_ok (b : bool) : bool :=\n  {ok}.\n"
        f"Definition gen_imp_after_err (b : bool) : bool :=\n  {err}.\n")


# ------------------------------------------------------------------ in_frame / in_description_frame
def gen_frames(text):
    out = []
    for fn, name in (("in_frame", "gen_in_frame_exit"), ("in_description_frame", "gen_in_description_frame_exit")):
        what = f"lib.rs {fn}"
        body = strip_comments(body_of(text, r"pub fn " + fn + r"\s*<T>\s*\(", what))
        # body_of started at the first `{` after the header: that must be the function body (no braces in the signature)
        stmts = [norm(s) for s in split_stmts(body, what)]
        if len(stmts) != 2:
            raise TranslateError(f"{what}: expected `let <guard> = check_depth()?;` and one final expression")
        m = re.fullmatch(r"let (\w+) = check_depth\(\)\?;", stmts[0])
        if m and m.group(1) != "_":
            exit_t = "gen_guard_drop c m"          # the guard lives to the end of the function: Drop on both paths
        elif re.fullmatch(r"(?:std::)?mem::forget\(check_depth\(\)\?\);", stmts[0]):
            exit_t = "(c, m)"                      # the guard is forgotten: Drop never runs
        else:
            raise TranslateError(f"{what}: untranslatable guard statement `{stmts[0][:60]}`")
        if "?" in stmts[1] or re.search(r"\breturn\b|check_depth|forget", stmts[1]) or not re.match(r"f\(\)", stmts[1]):
            raise TranslateError(f"{what}: untranslatable final expression `{stmts[1][:60]}`")
        out.append(f"(* {fn}: entry is GenStack.gen_check_depth; what happens to the counters when it returns (Ok or Err) *)\n"
                   f"Definition {name} (c m : nat) : nat * nat :=\n  {exit_t}.\n")
    return "".join(out)


@generator("GenTls")
def gen_tls():
    obj = src(OBJ)
    lib = src(LIB)
    return (
        "From Coq Require Import List Arith Bool.\n"
        "From JrV Require Import Gen.GenStack.\n"
        "Import ListNotations.\n"
        "(* vocabulary: a hash set of ids as a list (HashSet::insert / remove / contains) *)\n"
        "Definition ts_mem (o : nat) (s : list nat) : bool := existsb (Nat.eqb o) s.\n"
        "Definition ts_insert (o : nat) (s : list nat) : list nat := if ts_mem o s then s else o :: s.\n"
        "Definition ts_remove (o : nat) (s : list nat) : list nat := filter (fun x => negb (Nat.eqb o x)) s.\n"
        + gen_run_assertions(obj) + gen_state_enter(lib) + gen_import(lib) + gen_frames(lib))
