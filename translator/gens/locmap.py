"""GenLoc.v: the position arithmetic of jrsonnet, translated statement by statement.

Translated from the working tree (Rust subset -> Gallina, fail closed):
  crates/jrsonnet-ir/src/location.rs
      struct CodeLocation            -> Record CodeLocation (field list, all usize -> N), default, setters
      fn offset_to_location          -> gen_offset_to_location (+ one Fixpoint per loop of the function)
  crates/jrsonnet-evaluator/src/trace/mod.rs
      fn print_code_location         -> gen_print_code_location  (list of (format string, arguments) written)
      JsFormat::write_trace          -> gen_js_query / gen_js_args  (the offsets mapped, the numbers printed)
      CompactFormat::write_trace, ImportSyntaxError branch
                                     -> gen_syntax_error_location (clamp, map, +1 when clamped)

How: a tokenizer and a recursive-descent parser for the statements and expressions these functions use
(let / let mut, `=`, `+=`, `-=`, if / else, `while let Some(x) = v.last()`, `for pat in iter`, break, early
return, write!(..)?, method calls on Vec / slices / str, tuples, closures, casts, char and integer literals,
comparison and additive operators), then an imperative-to-functional translation: every mutable variable
is re-bound by `let`, every loop becomes a Fixpoint over the iterated list (or over fuel = length of the
popped vector + 1 for `while let .. = v.last()` whose body pops v) that takes the variables the body reads
and returns the variables it assigns, `break` is a flag in the result.  Operators are emitted from the
operator that stands in the source (`<` -> N.ltb, `<=` -> N.leb, `!=` -> negb (N.eqb ..), `+ 1` -> N.add .. 1,
`- 1` and `.saturating_sub(1)` -> N.sub .. 1), literals from the literal ('\\n' -> 10).  The only fixed text
is the prelude: models of the Rust library functions the code calls (str::len / char_indices /
chars().enumerate(), Vec::last / pop / push / reverse / sort_by_key (stable), Iterator::max, enumerate,
array index assignment), each emitted only under the name of the method that stands in the source.

Not modelled: `as u32` / `as usize` casts are the identity (files < 4 GiB); `-` on usize is N.sub (a debug
build would panic below zero; the columns the mapper produces are >= 2); `?` on fmt::Result is ignored.
Anything else raises TranslateError.
"""
import re

from gen import TranslateError, generator, src


def fail(msg):
    raise TranslateError("locmap: " + msg)


# ---------------------------------------------------------------------------------------------- tokens
TOK = re.compile(r"""
    (?P<ws>\s+|//[^\n]*|/\*.*?\*/)
  | (?P<int>\d[\d_]*(?:usize|u32|u64|i32|i64)?)
  | (?P<id>[A-Za-z_]\w*)
  | (?P<chr>'(?:\\.|[^\\'])')
  | (?P<str>"(?:\\.|[^"\\])*")
  | (?P<op>::|->|=>|==|!=|<=|>=|\+=|-=|&&|\|\||\.\.|[-+*/%<>=!&|.,;:(){}\[\]?#])
""", re.X | re.S)


def tokenize(text, what):
    out, pos = [], 0
    while pos < len(text):
        m = TOK.match(text, pos)
        if not m:
            fail(f"{what}: cannot tokenize at `{text[pos:pos + 30]}`")
        pos = m.end()
        k = m.lastgroup
        if k == "ws":
            continue
        out.append((k, m.group(k)))
    return out


CHAR_ESC = {"n": 10, "r": 13, "t": 9, "\\": 92, "'": 39, "0": 0, '"': 34}


def char_value(lit):
    body = lit[1:-1]
    if body.startswith("\\"):
        if body[1] not in CHAR_ESC or len(body) != 2:
            fail(f"char literal {lit}")
        return CHAR_ESC[body[1]]
    return ord(body)


# ---------------------------------------------------------------------------------------------- parser
class P:
    def __init__(self, toks, what):
        self.t, self.i, self.what = toks, 0, what

    def peek(self, k=0):
        return self.t[self.i + k] if self.i + k < len(self.t) else ("eof", "")

    def next(self):
        tok = self.peek()
        self.i += 1
        return tok

    def at(self, v):
        return self.peek()[1] == v and self.peek()[0] in ("op", "id")

    def eat(self, v):
        if self.at(v):
            self.i += 1
            return True
        return False

    def expect(self, v):
        if not self.eat(v):
            fail(f"{self.what}: `{v}` expected, found `{self.peek()[1]}` "
                 f"(near `{' '.join(x[1] for x in self.t[max(0, self.i - 6):self.i + 3])}`)")

    # ---- patterns
    def pattern(self):
        if self.eat("("):
            ps = []
            while not self.at(")"):
                ps.append(self.pattern())
                if not self.eat(","):
                    break
            self.expect(")")
            return ("ptuple", ps)
        self.eat("mut")
        k, v = self.next()
        if k != "id":
            fail(f"{self.what}: pattern expected, found `{v}`")
        if v == "Some" and self.eat("("):
            p = self.pattern()
            self.expect(")")
            return ("psome", p)
        return ("pvar", v)

    # ---- blocks and statements
    def block(self):
        self.expect("{")
        stmts = []
        while not self.at("}"):
            stmts.append(self.stmt())
        self.expect("}")
        return stmts

    def stmt(self):
        if self.eat("let"):
            mut = self.eat("mut")
            pat = self.pattern()
            if self.eat(":"):
                self.skip_type()
            self.expect("=")
            e = self.expr()
            self.expect(";")
            return ("let", mut, pat, e)
        if self.at("if"):
            e = self.if_expr()
            self.eat(";")
            return ("ifs", e)
        if self.eat("while"):
            if self.eat("let"):
                pat = self.pattern()
                self.expect("=")
                e = self.expr(nostruct=True)
                return ("whilelet", pat, e, self.block())
            e = self.expr(nostruct=True)
            return ("while", e, self.block())
        if self.eat("for"):
            pat = self.pattern()
            self.expect("in")
            e = self.expr(nostruct=True)
            return ("for", pat, e, self.block())
        if self.eat("break"):
            self.expect(";")
            return ("break",)
        if self.eat("return"):
            e = self.expr()
            self.expect(";")
            return ("return", e)
        if self.eat("use"):
            while not self.eat(";"):
                self.next()
            return ("use",)
        e = self.expr()
        for op in ("=", "+=", "-="):
            if self.eat(op):
                r = self.expr()
                self.expect(";")
                return ("assign", op, e, r)
        if self.eat(";"):
            return ("exprs", e)
        if self.at("}"):
            return ("tail", e)
        fail(f"{self.what}: `;` expected after expression, found `{self.peek()[1]}`")

    def skip_type(self):
        depth = 0
        while True:
            v = self.peek()[1]
            if depth == 0 and v in ("=", ";", ",", ")", "{"):
                return
            if v in ("<", "(", "["):
                depth += 1
            if v in (">", ")", "]"):
                depth -= 1
            self.next()

    def if_expr(self):
        self.expect("if")
        c = self.expr(nostruct=True)
        a = self.block()
        b = None
        if self.eat("else"):
            b = [("ifs", self.if_expr())] if self.at("if") else self.block()
        return ("if", c, a, b)

    # ---- expressions
    BIN = {"||": 1, "&&": 2, "==": 3, "!=": 3, "<": 3, "<=": 3, ">": 3, ">=": 3, "+": 5, "-": 5, "*": 6, "/": 6, "%": 6}

    def expr(self, minp=0, nostruct=False):
        lhs = self.unary()
        while True:
            k, v = self.peek()
            if v == "as" and k == "id" and 7 >= minp:
                self.next()
                ty = self.next()[1]
                lhs = ("cast", lhs, ty)
                continue
            if k == "op" and v in self.BIN and self.BIN[v] >= minp:
                self.next()
                rhs = self.expr(self.BIN[v] + 1)
                lhs = ("bin", v, lhs, rhs)
                continue
            return lhs

    def unary(self):
        if self.eat("*"):
            return ("deref", self.unary())
        if self.eat("&"):
            self.eat("mut")
            return ("ref", self.unary())
        if self.eat("!"):
            return ("not", self.unary())
        return self.postfix(self.primary())

    def args(self, close):
        out = []
        while not self.at(close):
            if self.at(".."):
                self.next()
                out.append(("fullrange",))
            else:
                out.append(self.expr())
            if not self.eat(","):
                break
        self.expect(close)
        return out

    def postfix(self, e):
        while True:
            if self.eat("."):
                k, v = self.next()
                if k == "int":
                    e = ("tfield", e, int(v))
                    continue
                if k != "id":
                    fail(f"{self.what}: field or method expected after `.`")
                if self.at("::"):            # turbofish
                    self.next()
                    self.skip_angle()
                if self.eat("("):
                    e = ("mcall", e, v, self.args(")"))
                else:
                    e = ("field", e, v)
                continue
            if self.eat("["):
                idx = self.expr()
                self.expect("]")
                e = ("index", e, idx)
                continue
            if self.eat("?"):
                e = ("try", e)
                continue
            return e

    def skip_angle(self):
        self.expect("<")
        depth = 1
        while depth:
            v = self.next()[1]
            if v == "<":
                depth += 1
            elif v == ">":
                depth -= 1
            elif v == "":
                fail(f"{self.what}: unbalanced <>")

    def primary(self):
        k, v = self.next()
        if k == "int":
            return ("int", int(re.sub(r"[_a-z].*$", "", v.replace("_", ""))))
        if k == "chr":
            return ("char", char_value(v))
        if k == "str":
            return ("str", v[1:-1])
        if v == "(":
            es = []
            trailing = False
            while not self.at(")"):
                es.append(self.expr())
                trailing = self.eat(",")
                if not trailing:
                    break
            self.expect(")")
            return es[0] if len(es) == 1 and not trailing else ("tuple", es)
        if v == "[":
            first = self.expr()
            if self.eat(";"):
                n = self.expr()
                self.expect("]")
                return ("repeat", first, n)
            es = [first]
            while self.eat(","):
                if self.at("]"):
                    break
                es.append(self.expr())
            self.expect("]")
            return ("array", es)
        if v == "|":
            pat = self.pattern()
            self.expect("|")
            return ("closure", pat, self.expr())
        if v == "if" and k == "id":
            self.i -= 1
            return self.if_expr()
        if k == "id":
            path = [v]
            while self.at("::"):
                self.next()
                if self.at("<"):
                    self.skip_angle()
                    continue
                path.append(self.next()[1])
            if self.at("!"):
                self.next()
                close = {"(": ")", "[": "]", "{": "}"}.get(self.next()[1])
                if not close:
                    fail(f"{self.what}: macro delimiter")
                return ("macro", path[-1], self.args(close))
            if self.eat("("):
                return ("call", path, self.args(")"))
            return ("var", v) if len(path) == 1 else ("path", path)
        fail(f"{self.what}: unexpected token `{v}`")


def fn_source(text, header_re, what, first=False):
    """(header text, body text incl. braces) of the one function matching header_re"""
    ms = list(re.finditer(header_re, text))
    if first and ms:
        ms = ms[:1]
    if len(ms) != 1:
        fail(f"{what}: expected exactly one definition, found {len(ms)}")
    m = ms[0]
    i = text.index("{", m.end() - 1)
    depth, j, n = 0, i, len(text)
    while j < n:
        c = text[j]
        if c == "{":
            depth += 1
        elif c == "}":
            depth -= 1
            if depth == 0:
                return text[m.start():i], text[i:j + 1]
        elif c == '"':
            j += 1
            while text[j] != '"':
                j += 2 if text[j] == "\\" else 1
        elif c == "'" and re.match(r"'(?:\\.|[^\\'])'", text[j:]):
            j += re.match(r"'(?:\\.|[^\\'])'", text[j:]).end() - 1
        elif text.startswith("//", j):
            j = text.index("\n", j)
        j += 1
    fail(f"{what}: unbalanced braces")


def parse_block(body, what):
    p = P(tokenize(body, what), what)
    b = p.block()
    if p.peek()[0] != "eof":
        fail(f"{what}: trailing tokens")
    return b


# ---------------------------------------------------------------------------------------------- analysis
def pat_vars(p):
    if p[0] == "pvar":
        return [p[1]]
    if p[0] == "psome":
        return pat_vars(p[1])
    return [v for q in p[1] for v in pat_vars(q)]


def expr_vars(e, acc):
    """variables read by an expression"""
    k = e[0]
    if k == "var":
        acc.add(e[1])
    elif k in ("int", "char", "str", "path", "fullrange"):
        pass
    elif k == "bin":
        expr_vars(e[2], acc), expr_vars(e[3], acc)
    elif k in ("cast", "deref", "ref", "not", "try", "field", "tfield"):
        expr_vars(e[1], acc)
    elif k == "mcall":
        expr_vars(e[1], acc)
        for a in e[3]:
            expr_vars(a, acc)
    elif k in ("call", "macro"):
        for a in e[2]:
            expr_vars(a, acc)
    elif k == "index":
        expr_vars(e[1], acc), expr_vars(e[2], acc)
    elif k in ("tuple", "array"):
        for a in e[1]:
            expr_vars(a, acc)
    elif k == "repeat":
        expr_vars(e[1], acc), expr_vars(e[2], acc)
    elif k == "closure":
        inner = set()
        expr_vars(e[2], inner)
        acc |= inner - set(pat_vars(e[1]))
    elif k == "if":
        r, w = set(), set()
        expr_vars(e[1], r)
        stmts_rw(e[2], r, w)
        if e[3]:
            stmts_rw(e[3], r, w)
        acc |= r | w
    else:
        fail(f"expr_vars: {k}")


MUTATING = {"push", "pop", "reverse", "sort_by_key", "drain"}


def root_var(e):
    while e[0] in ("index", "field", "tfield", "deref", "ref"):
        e = e[1]
    return e[1] if e[0] == "var" else None


def stmts_rw(stmts, reads, writes):
    """free variables read / assigned by a statement list (locals declared inside removed)"""
    local = set()
    r, w = set(), set()
    for s in stmts:
        k = s[0]
        if k == "let":
            expr_vars(s[3], r)
            expr_w(s[3], w)
            local |= set(pat_vars(s[2]))
        elif k == "ifs":
            expr_vars(s[1], r)
            expr_w(s[1], w)
        elif k in ("whilelet", "for"):
            expr_vars(s[2], r)
            expr_w(s[2], w)
            r2, w2 = set(), set()
            stmts_rw(s[3], r2, w2)
            pv = set(pat_vars(s[1]))
            r |= r2 - pv
            w |= w2 - pv
        elif k == "assign":
            expr_vars(s[2], r), expr_vars(s[3], r)
            v = root_var(s[2])
            if v is None:
                fail("assignment to something that is not a variable, element or field")
            w.add(v)
        elif k in ("exprs", "tail", "return"):
            expr_vars(s[1], r)
            expr_w(s[1], w)
        elif k in ("break", "use"):
            pass
        else:
            fail(f"stmts_rw: {k}")
    reads |= r - local
    writes |= w - local


def expr_w(e, w):
    """variables mutated by method calls / macros inside an expression"""
    k = e[0]
    if k == "mcall":
        if e[2] in MUTATING:
            v = root_var(e[1])
            if v is None:
                fail(f"`.{e[2]}()` on something that is not a variable")
            w.add(v)
        expr_w(e[1], w)
        for a in e[3]:
            expr_w(a, w)
    elif k == "macro" and e[1] in ("write", "writeln"):
        w.add("written__")
    elif k in ("try", "cast", "deref", "ref", "not"):
        expr_w(e[1], w)
    elif k == "if":
        r = set()
        stmts_rw(e[2], r, w)
        if e[3]:
            stmts_rw(e[3], r, w)


def has_escape(stmts):
    """does the statement list contain a break / return (not counting nested loops' breaks)"""
    for s in stmts:
        if s[0] in ("break", "return"):
            return True
        if s[0] == "ifs" and (has_escape(s[1][2]) or (s[1][3] and has_escape(s[1][3]))):
            return True
        if s[0] in ("whilelet", "for") and any(has_return(x) for x in [s[3]]):
            return True
    return False


def has_return(stmts):
    for s in stmts:
        if s[0] == "return":
            return True
        if s[0] == "ifs" and (has_return(s[1][2]) or (s[1][3] and has_return(s[1][3]))):
            return True
        if s[0] in ("whilelet", "for") and has_return(s[3]):
            return True
    return False


# ---------------------------------------------------------------------------------------------- emitter
RENAME = {"end": "end_", "at": "at_", "in": "in_", "as": "as_", "fix": "fix_", "fun": "fun_", "match": "match_",
          "with": "with_", "then": "then_", "else": "else_", "let": "let_", "forall": "forall_", "exists": "exists_"}

CMP = {"==": "N.eqb {a} {b}", "!=": "negb (N.eqb {a} {b})", "<": "N.ltb {a} {b}", "<=": "N.leb {a} {b}",
       ">": "N.ltb {b} {a}", ">=": "N.leb {b} {a}"}
ARI = {"+": "N.add {a} {b}", "-": "N.sub {a} {b}", "*": "N.mul {a} {b}"}


def g(name):
    return RENAME.get(name, name)


def tuple_of(names):
    if not names:
        return "tt"
    if len(names) == 1:
        return g(names[0])
    return "(" + ", ".join(g(n) for n in names) + ")"


class Fn:
    """translation of one Rust function body"""

    def __init__(self, name, struct_fields, strs=(), consts=None, what=""):
        self.name = name
        self.fields = struct_fields
        self.strs = set(strs)            # variables of type &str
        self.consts = consts or {}       # const generics -> Gallina term
        self.scope = []                  # declared names, in order
        self.structs = set()             # variables holding a CodeLocation
        self.defs = []                   # generated Fixpoints (text)
        self.nloop = 0
        self.what = what or name

    def err(self, msg):
        fail(f"{self.what}: {msg}")

    def declare(self, names):
        for n in names:
            if n in self.scope:
                self.err(f"`{n}` is declared twice (shadowing is not translated)")
            self.scope.append(n)

    def ordered(self, names):
        unknown = [n for n in names if n not in self.scope]
        if unknown:
            self.err(f"unbound variable(s) {unknown}")
        return [n for n in self.scope if n in names]

    # ---- patterns
    def pat(self, p):
        if p[0] == "pvar":
            return g(p[1])
        if p[0] == "ptuple":
            return "(" + ", ".join(self.pat(q) for q in p[1]) + ")"
        self.err("pattern")

    # ---- expressions
    def ex(self, e):
        k = e[0]
        if k == "int":
            return f"{e[1]}%N"
        if k == "char":
            return f"{e[1]}%N"
        if k == "var":
            if e[1] in self.consts:
                return self.consts[e[1]]
            if e[1] not in self.scope:
                self.err(f"unbound variable `{e[1]}`")
            return g(e[1])
        if k in ("cast", "deref", "ref"):
            if k == "cast" and e[2] not in ("u32", "usize", "u64"):
                self.err(f"cast to {e[2]}")
            return self.ex(e[1])
        if k == "bin":
            a, b = self.ex(e[2]), self.ex(e[3])
            if e[1] in CMP:
                return "(" + CMP[e[1]].format(a=a, b=b) + ")"
            if e[1] in ARI:
                return "(" + ARI[e[1]].format(a=a, b=b) + ")"
            if e[1] == "&&":
                return f"(andb {a} {b})"
            if e[1] == "||":
                return f"(orb {a} {b})"
            self.err(f"operator {e[1]}")
        if k == "not":
            return f"(negb {self.ex(e[1])})"
        if k == "tfield":
            if e[2] not in (0, 1):
                self.err("tuple field beyond .1")
            return f"({'fst' if e[2] == 0 else 'snd'} {self.ex(e[1])})"
        if k == "field":
            if e[2] not in self.fields:
                self.err(f"unknown field .{e[2]}")
            return f"(g_{e[2]} {self.ex(e[1])})"
        if k == "tuple":
            return "(" + ", ".join(self.ex(x) for x in e[1]) + ")"
        if k == "array":
            return "[" + "; ".join(self.ex(x) for x in e[1]) + "]"
        if k == "repeat":
            return f"(repeat {self.ex(e[1])} {self.count(e[2])})"
        if k == "call":
            if e[1] == ["CodeLocation", "default"] and not e[2]:
                return "default_CodeLocation"
            if e[1][-2:] == ["iter", "once"] and len(e[2]) == 1:
                return f"[{self.ex(e[2][0])}]"
            self.err(f"call of {'::'.join(e[1])}")
        if k == "macro":
            if e[1] == "vec" and not e[2]:
                return "[]"
            self.err(f"macro {e[1]}!")
        if k == "index":
            i = e[2]
            idx = f"{i[1]}%nat" if i[0] == "int" else self.ex(i)
            return f"(nth {idx} {self.ex(e[1])} default_CodeLocation)"
        if k == "closure":
            p = e[1]
            saved = list(self.scope)
            self.declare(pat_vars(p))
            body = self.ex(e[2])
            self.scope = saved
            return f"(fun {self.pat(p) if p[0] == 'pvar' else chr(39) + self.pat(p)} => {body})"
        if k == "mcall":
            return self.mcall(e)
        if k == "if":
            return self.if_value(e)
        self.err(f"untranslatable expression ({k})")

    def count(self, e):
        """an array length: a const generic"""
        if e[0] == "var" and e[1] in self.consts:
            return self.consts[e[1]]
        self.err("array length that is not the const generic of the offsets parameter")

    def is_str(self, e):
        return e[0] == "var" and e[1] in self.strs

    def mcall(self, e):
        recv, m, args = e[1], e[2], e[3]
        n = len(args)
        if self.is_str(recv):
            if m == "len" and n == 0:
                return f"(str_len {self.ex(recv)})"
            if m == "char_indices" and n == 0:
                return f"(str_char_indices {self.ex(recv)})"
        if recv[0] == "mcall" and self.is_str(recv[1]) and recv[2] == "chars" and not recv[3]:
            if m == "enumerate" and n == 0:
                return f"(str_chars_enumerate {self.ex(recv[1])})"
            if m == "count" and n == 0:
                return f"(str_chars_count {self.ex(recv[1])})"
        if m == "chain" and n == 1:
            return f"({self.ex(recv)} ++ {self.ex(args[0])})"
        if m == "is_empty" and n == 0:
            return f"(slice_is_empty {self.ex(recv)})"
        if m == "saturating_sub" and n == 1:
            return f"(N.sub {self.ex(recv)} {self.ex(args[0])})"
        if m == "last" and n == 0:
            return f"(vec_last {self.ex(recv)})"
        if m == "len" and n == 0:
            return f"(N.of_nat (length {self.ex(recv)}))"
        if m in ("expect", "unwrap") and recv[0] == "mcall" and recv[2] == "max" and not recv[3] \
                and recv[1][0] == "mcall" and recv[1][2] == "iter" and not recv[1][3]:
            return f"(iter_max {self.ex(recv[1][1])})"
        if m == "collect" and n == 0:
            return self.ex(recv)
        if m == "map" and n == 1 and args[0][0] == "closure":
            return f"(map {self.ex(args[0])} {self.ex(recv)})"
        if m == "enumerate" and n == 0 and recv[0] == "mcall" and recv[2] == "iter" and not recv[3]:
            return f"(slice_enumerate {self.ex(recv[1])})"
        if m in ("iter", "into_iter") and n == 0:
            return self.ex(recv)
        self.err(f"method .{m}({n} args) in this position")

    # ---- statements
    def seq(self, stmts, ctx):
        """ctx: dict(tail=str or None, brk=str or None, kind='fn'|'loop'|'value')"""
        if not stmts:
            if ctx["tail"] is None:
                self.err("block without a final expression")
            return ctx["tail"]
        s, rest = stmts[0], stmts[1:]
        k = s[0]
        if k == "use":
            return self.seq(rest, ctx)
        if k == "let":
            pat, e = s[2], s[3]
            if pat[0] != "pvar":
                self.err("destructuring let")
            rhs = self.ex_stmt_value(e)
            self.declare([pat[1]])
            if e[0] == "call" and e[1] == ["CodeLocation", "default"]:
                self.structs.add(pat[1])
            return f"let {g(pat[1])} := {rhs} in\n{self.seq(rest, ctx)}"
        if k == "break":
            if ctx["brk"] is None:
                self.err("break outside a loop")
            return ctx["brk"]
        if k == "return":
            if ctx["kind"] != "fn":
                self.err("return inside a loop")
            return self.ex(s[1])
        if k == "tail":
            if rest:
                self.err("expression in the middle of a block")
            if ctx["kind"] == "loop":
                self.err("loop body with a value")
            return self.tail_value(s[1], ctx)
        if k == "assign":
            return self.assign(s) + "\n" + self.seq(rest, ctx)
        if k == "exprs":
            return self.expr_stmt(s[1]) + "\n" + self.seq(rest, ctx)
        if k == "ifs":
            return self.if_stmt(s[1], rest, ctx)
        if k == "for":
            return self.for_loop(s) + "\n" + self.seq(rest, ctx)
        if k == "whilelet":
            return self.while_let(s) + "\n" + self.seq(rest, ctx)
        self.err(f"untranslatable statement ({k})")

    def tail_value(self, e, ctx):
        if e[0] == "call" and e[1] == ["Ok"] and e[2] == [("tuple", [])]:
            if "written__" not in self.scope:
                self.err("Ok(()) in a function that writes nothing")
            return "written__"
        return self.ex(e)

    def ex_stmt_value(self, e):
        return self.ex(e)

    def lvalue_set(self, target, value_of):
        """`target = v` as a re-binding of the root variable; value_of(old) gives the new Gallina value"""
        if target[0] == "var":
            if target[1] not in self.scope:
                self.err(f"assignment to unbound `{target[1]}`")
            return g(target[1]), value_of(g(target[1]))
        if target[0] == "field" and target[1][0] == "index" and target[1][1][0] == "var":
            arr, idx, fld = target[1][1][1], target[1][2], target[2]
            if fld not in self.fields:
                self.err(f"unknown field .{fld}")
            newv = value_of(f"(g_{fld} c__)")
            return g(arr), f"vec_update {self.ex(idx)} (fun c__ => set_{fld} {newv} c__) {g(arr)}"
        if target[0] == "field" and target[1][0] == "var":
            v, fld = target[1][1], target[2]
            if fld not in self.fields:
                self.err(f"unknown field .{fld}")
            return g(v), f"set_{fld} {value_of(f'(g_{fld} {g(v)})')} {g(v)}"
        self.err("assignment target")

    def assign(self, s):
        op, target, rhs = s[1], s[2], self.ex(s[3])
        if op == "=":
            name, val = self.lvalue_set(target, lambda old: rhs)
        elif op == "+=":
            name, val = self.lvalue_set(target, lambda old: f"(N.add {old} {rhs})")
        else:
            name, val = self.lvalue_set(target, lambda old: f"(N.sub {old} {rhs})")
        return f"let {name} := {val} in"

    def expr_stmt(self, e):
        if e[0] == "try":
            e = e[1]
        if e[0] == "mcall" and e[1][0] == "var" and e[1][1] in self.scope:
            v, m, a = g(e[1][1]), e[2], e[3]
            if m == "push" and len(a) == 1:
                return f"let {v} := vec_push {v} {self.ex(a[0])} in"
            if m == "pop" and not a:
                return f"let {v} := vec_pop {v} in"
            if m == "reverse" and not a:
                return f"let {v} := vec_reverse {v} in"
            if m == "sort_by_key" and len(a) == 1 and a[0][0] == "closure":
                return f"let {v} := vec_sort_by_key {self.ex(a[0])} {v} in"
        if e[0] == "macro" and e[1] == "write" and len(e[2]) >= 2 and e[2][1][0] == "str":
            fmt = e[2][1][1]
            args = [self.ex(a) for a in e[2][2:]]
            if fmt.count("{}") != len(args) or "{" in fmt.replace("{}", ""):
                self.err(f"format string `{fmt}` with {len(args)} arguments")
            if "written__" not in self.scope:
                self.err("write! in a function without an output")
            return f"let written__ := written__ ++ [(\"{fmt}\"%string, [{'; '.join(args)}])] in"
        self.err(f"untranslatable expression statement ({e[0]}{' .' + e[2] if e[0] == 'mcall' else ''})")

    def if_stmt(self, e, rest, ctx):
        c, a, b = e[1], e[2], e[3] or []
        cond = self.ex(c)
        if has_escape(a) or has_escape(b):
            saved, ss = list(self.scope), set(self.structs)
            ta = self.seq(a + rest, ctx)
            self.scope, self.structs = list(saved), set(ss)
            tb = self.seq(b + rest, ctx)
            self.scope, self.structs = saved, ss
            return f"if {cond}\nthen (\n{ta})\nelse (\n{tb})"
        r, w = set(), set()
        stmts_rw(a, r, w)
        stmts_rw(b, r, w)
        ws = self.ordered(w)
        tup = tuple_of(ws)
        sub = {"tail": tup, "brk": None, "kind": "loop"}
        saved = list(self.scope)
        ta = self.seq(a, sub)
        self.scope = list(saved)
        tb = self.seq(b, sub)
        self.scope = saved
        return (f"let {chr(39) if len(ws) > 1 else ''}{tup} := (if {cond}\nthen (\n{ta})\nelse (\n{tb})) in\n"
                + self.seq(rest, ctx))

    def if_value(self, e):
        """`if c { stmts; v } else { stmts; w }` used as a value: returns (value, assigned variables)"""
        self.err("`if` used as a value is only translated in `let x = if ..` of the syntax-error branch")

    # ---- loops
    def loop_sig(self, body, extra_reads, bound):
        r, w = set(), set()
        stmts_rw(body, r, w)
        r |= extra_reads
        r -= set(bound)
        w -= set(bound)
        r -= set(self.consts)
        params = self.ordered(r | w)
        writes = self.ordered(w)
        return params, writes

    def for_loop(self, s):
        pat, it, body = s[1], s[2], s[3]
        # the iterated list, and what happens to the iterated vector
        after = ""
        if it[0] == "mcall" and it[2] == "drain" and it[3] == [("fullrange",)] and it[1][0] == "var":
            items = self.ex(it[1])
            after = f"let {g(it[1][1])} := [] in"
        else:
            items = self.ex(it)
        bound = pat_vars(pat)
        params, writes = self.loop_sig(body, set(), bound)
        self.nloop += 1
        name = f"{self.name}_loop{self.nloop}"
        wt = tuple_of(writes)
        saved = list(self.scope)
        self.declare(bound)
        btxt = self.seq(body, {"tail": f"(false, {wt})", "brk": f"(true, {wt})", "kind": "loop"})
        self.scope = saved
        ps = " ".join(g(p) for p in params)
        self.defs.append(
            f"Fixpoint {name} (items__ : list _) {ps} {{struct items__}} :=\n"
            f"  match items__ with\n  | [] => {wt}\n  | {self.pat(pat)} :: items__ =>\n"
            f"let '(brk__, {wt}) := (\n{btxt}) in\n"
            f"if (brk__ : bool) then {wt} else {name} items__ {ps}\n  end.\n")
        call = f"let {chr(39) if len(writes) > 1 else ''}{wt} := {name} {items} {ps} in"
        return call + ("\n" + after if after else "")

    def while_let(self, s):
        pat, scrut, body = s[1], s[2], s[3]
        if not (pat[0] == "psome" and pat[1][0] == "pvar"):
            self.err("while let pattern other than Some(x)")
        if not (scrut[0] == "mcall" and scrut[2] == "last" and not scrut[3] and scrut[1][0] == "var"):
            self.err("`while let` over something that is not `v.last()`")
        vec = scrut[1][1]
        # termination: the body must pop the inspected vector at its top level
        if not any(st[0] == "exprs" and st[1] == ("mcall", ("var", vec), "pop", []) for st in body):
            self.err(f"`while let Some(..) = {vec}.last()` whose body does not `{vec}.pop()`: no termination measure")
        bound = pat_vars(pat)
        params, writes = self.loop_sig(body, {vec}, bound)
        self.nloop += 1
        name = f"{self.name}_loop{self.nloop}"
        wt = tuple_of(writes)
        saved = list(self.scope)
        self.declare(bound)
        btxt = self.seq(body, {"tail": f"(false, {wt})", "brk": f"(true, {wt})", "kind": "loop"})
        self.scope = saved
        ps = " ".join(g(p) for p in params)
        self.defs.append(
            f"Fixpoint {name} (fuel__ : nat) {ps} {{struct fuel__}} :=\n"
            f"  match fuel__ with\n  | O => {wt}\n  | S fuel__ =>\n"
            f"    match {self.ex(scrut)} with\n    | None => {wt}\n    | Some {g(bound[0])} =>\n"
            f"let '(brk__, {wt}) := (\n{btxt}) in\n"
            f"if (brk__ : bool) then {wt} else {name} fuel__ {ps}\n    end\n  end.\n")
        return f"let {chr(39) if len(writes) > 1 else ''}{wt} := {name} (S (length {g(vec)})) {ps} in"


# ---------------------------------------------------------------------------------------------- pieces
def struct_fields(text):
    m = re.search(r"#\[derive\(([^)]*)\)\]\s*pub struct CodeLocation\s*\{([^}]*)\}", text)
    if not m:
        fail("struct CodeLocation with its derive list not found")
    if "Default" not in [x.strip() for x in m.group(1).split(",")]:
        fail("CodeLocation no longer derives Default")
    fields = []
    for part in re.sub(r"//[^\n]*", "", m.group(2)).split(","):
        part = part.strip()
        if not part:
            continue
        fm = re.fullmatch(r"pub\s+(\w+)\s*:\s*usize", part)
        if not fm:
            fail(f"CodeLocation field `{part}` is not `pub name: usize`")
        fields.append(fm.group(1))
    need = {"offset", "line", "column", "line_start_offset", "line_end_offset"}
    if set(fields) != need:
        fail(f"CodeLocation fields {fields} differ from {sorted(need)}")
    return fields


def emit_struct(fields):
    n = len(fields)
    out = ["Record CodeLocation := mkCodeLocation { " + "; ".join(f"g_{f} : N" for f in fields) + " }.",
           "(* #[derive(Default)] *)",
           "Definition default_CodeLocation : CodeLocation := mkCodeLocation " + " ".join(["0"] * n) + "."]
    for i, f in enumerate(fields):
        args = " ".join("v" if j == i else f"(g_{h} c)" for j, h in enumerate(fields))
        out.append(f"Definition set_{f} (v : N) (c : CodeLocation) : CodeLocation := mkCodeLocation {args}.")
    return "\n".join(out) + "\n"


PRELUDE = """From Coq Require Import String.
From Coq Require Import List NArith Bool.
Import ListNotations.
Open Scope N_scope.

(* ---- models of the Rust library functions the translated code calls (fixed text) ----
   A `&str` is the list of its chars (Unicode scalar values); positions are UTF-8 byte offsets. *)
Definition char_len_utf8 (c : N) : N :=
  if c <? 128 then 1 else if c <? 2048 then 2 else if c <? 65536 then 3 else 4.
(* str::len : byte length *)
Fixpoint str_len (s : list N) : N := match s with [] => 0 | c :: r => char_len_utf8 c + str_len r end.
(* str::char_indices : (byte offset, char) *)
Fixpoint str_char_indices_from (p : N) (s : list N) : list (N * N) :=
  match s with [] => [] | c :: r => (p, c) :: str_char_indices_from (p + char_len_utf8 c) r end.
Definition str_char_indices (s : list N) := str_char_indices_from 0 s.
(* str::chars().enumerate() : (character index, char) *)
Fixpoint str_chars_enumerate_from (p : N) (s : list N) : list (N * N) :=
  match s with [] => [] | c :: r => (p, c) :: str_chars_enumerate_from (p + 1) r end.
Definition str_chars_enumerate (s : list N) := str_chars_enumerate_from 0 s.
Definition str_chars_count (s : list N) : N := N.of_nat (length s).
(* slice::iter().enumerate() : (index, element) *)
Definition slice_enumerate {A} (l : list A) : list (nat * A) := combine (seq 0 (length l)) l.
Definition slice_is_empty {A} (l : list A) : bool := match l with [] => true | _ => false end.
(* Iterator::max over u32 (callers have excluded the empty slice) *)
Definition iter_max (l : list N) : N := fold_right N.max 0 l.
(* Vec: a list in index order; last / pop / push work at the END *)
Definition vec_last {A} (v : list A) : option A := hd_error (rev v).
Definition vec_pop {A} (v : list A) : list A := rev (tl (rev v)).
Definition vec_push {A} (v : list A) (x : A) : list A := v ++ [x].
Definition vec_reverse {A} (v : list A) : list A := rev v.
(* slice::sort_by_key is a STABLE sort *)
Fixpoint insert_by_key {A} (key : A -> N) (x : A) (l : list A) : list A :=
  match l with [] => [x] | y :: r => if key x <=? key y then x :: l else y :: insert_by_key key x r end.
Definition vec_sort_by_key {A} (key : A -> N) (v : list A) : list A := fold_right (insert_by_key key) [] v.
(* v[i] = f(v[i]) (in bounds by construction: the indices come from enumerate()) *)
Fixpoint vec_update {A} (i : nat) (f : A -> A) (v : list A) : list A :=
  match v, i with [], _ => [] | x :: r, O => f x :: r | x :: r, S j => x :: vec_update j f r end.

"""


def gen_offset_to_location(text, fields):
    header, body = fn_source(text, r"pub fn offset_to_location\b[^{]*\{", "offset_to_location")
    m = re.search(r"offset_to_location\s*<\s*const\s+(\w+)\s*:\s*usize\s*>\s*\(\s*(\w+)\s*:\s*&str\s*,\s*(\w+)\s*:\s*"
                  r"&\[u32;\s*(\w+)\]\s*\)\s*->\s*\[CodeLocation;\s*(\w+)\]", header)
    if not m or not (m.group(1) == m.group(4) == m.group(5)):
        fail("offset_to_location: signature is not <const S: usize>(file: &str, offsets: &[u32; S]) -> [CodeLocation; S]")
    cg, file_, offs = m.group(1), m.group(2), m.group(3)
    fn = Fn("gen_offset_to_location", fields, strs=[file_], consts={cg: f"(length {g(offs)})"},
            what="offset_to_location")
    fn.declare([file_, offs])
    stmts = parse_block(body, "offset_to_location")
    term = fn.seq(stmts, {"tail": None, "brk": None, "kind": "fn"})
    out = "(* ---- crates/jrsonnet-ir/src/location.rs: offset_to_location ---- *)\n"
    out += "\n".join(fn.defs)
    out += (f"\nDefinition gen_offset_to_location ({g(file_)} : list N) ({g(offs)} : list N) : list CodeLocation :=\n"
            f"{term}.\n")
    if fn.nloop < 3:
        fail(f"offset_to_location: only {fn.nloop} loops found (walk over the file, offset matching, line ends)")
    return out


def gen_print_code_location(text, fields):
    header, body = fn_source(text, r"\bfn print_code_location\s*\([^{]*\{", "print_code_location")
    m = re.search(r"print_code_location\s*\(\s*(\w+)\s*:\s*&mut impl std::fmt::Write\s*,\s*(\w+)\s*:\s*&CodeLocation\s*,"
                  r"\s*(\w+)\s*:\s*&CodeLocation\s*,?\s*\)", header)
    if not m:
        fail("print_code_location: signature is not (out: &mut impl Write, start: &CodeLocation, end: &CodeLocation)")
    out_, a, b = m.groups()
    fn = Fn("gen_print_code_location", fields, what="print_code_location")
    fn.declare([out_, a, b, "written__"])
    stmts = parse_block(body, "print_code_location")
    term = fn.seq(stmts, {"tail": None, "brk": None, "kind": "fn"})
    if fn.defs:
        fail("print_code_location: loops are not expected")
    return ("(* ---- crates/jrsonnet-evaluator/src/trace/mod.rs: print_code_location ----\n"
            "   result: what is written, as (format string, arguments) per write! *)\n"
            f"Definition gen_print_code_location ({g(a)} {g(b)} : CodeLocation) : list (string * list N) :=\n"
            f"let {g(out_)} := tt in let written__ := @nil (string * list N) in\n{term}.\n")


def impl_fn(text, impl_re, what):
    m = re.search(impl_re, text)
    if not m:
        fail(f"{what}: impl not found")
    _, body = fn_source(text[m.end():], r"\bfn write_trace\s*\([^{]*\{", what, first=True)
    return body


def gen_js(text, fields):
    body = impl_fn(text, r"impl TraceFormat for JsFormat\s*\{", "JsFormat::write_trace")
    toks_all = re.sub(r"//[^\n]*", "", body)
    m = re.findall(r"let\s+(\w+)\s*=\s*(\w+)\s*\.\s*0\s*\.\s*map_source_locations\s*\(\s*&\s*\[\s*(\w+)\s*\.\s*1\s*,"
                   r"\s*(\w+)\s*\.\s*2\s*\]\s*\)\s*;", toks_all)
    if len(m) != 1 or not (m[0][1] == m[0][2] == m[0][3]):
        fail("JsFormat::write_trace: `let start_end = source.0.map_source_locations(&[source.1, source.2]);` not found")
    locs = m[0][0]
    wm = [x for x in re.finditer(r"write!\s*\(", toks_all)]
    cands = []
    for x in wm:
        depth, j = 1, x.end()
        while depth:
            c = toks_all[j]
            if c == '"':
                j += 1
                while toks_all[j] != '"':
                    j += 2 if toks_all[j] == "\\" else 1
            depth += {"(": 1, ")": -1}.get(c, 0)
            j += 1
        inner = toks_all[x.end():j - 1]
        if locs in inner:
            cands.append(inner)
    if len(cands) != 1:
        fail(f"JsFormat::write_trace: expected one write! mentioning {locs}, found {len(cands)}")
    p = P(tokenize(cands[0], "JsFormat write!"), "JsFormat write!")
    args = p.args("\0") if False else None
    es = []
    while p.peek()[0] != "eof":
        es.append(p.expr())
        if not p.eat(","):
            break
    if p.peek()[0] != "eof" or len(es) < 3 or es[1][0] != "str":
        fail("JsFormat::write_trace: write!(out, \"..\", args) not understood")
    fmt = es[1][1]
    if fmt.count("{}") != len(es) - 2:
        fail("JsFormat::write_trace: placeholders / arguments mismatch")
    fn = Fn("gen_js", fields, what="JsFormat::write_trace")
    fn.declare([locs])
    nums = []
    for e in es[2:]:
        acc = set()
        expr_vars(e, acc)
        if locs in acc:
            nums.append(fn.ex(e))
    if not re.search(r"\(\{\}:\{\}:\{\}\)$", fmt) or len(nums) != 2 or nums != [fn.ex(e) for e in es[-2:]]:
        fail(f"JsFormat::write_trace: format `{fmt}` does not end in ({{path}}:{{line}}:{{column}}) fed from {locs}")
    return ("(* ---- trace/mod.rs: JsFormat::write_trace ----\n"
            f"   `{fmt}`: the offsets mapped are [span start; span end]; the last two arguments are: *)\n"
            "Definition gen_js_query (span_start span_end : N) : list N := [span_start; span_end].\n"
            f"Definition gen_js_args ({g(locs)} : list CodeLocation) : list N :=\n  [{'; '.join(nums)}].\n")


def gen_syntax_error(text, fields):
    body = impl_fn(text, r"impl TraceFormat for CompactFormat\s*\{", "CompactFormat::write_trace")
    body = re.sub(r"//[^\n]*", "", body)
    m = re.search(r"let\s+mut\s+offset\s*=\s*error\s*\.\s*location\s*\.\s*offset\s*;", body)
    if not m:
        fail("CompactFormat::write_trace: `let mut offset = error.location.offset;` not found")
    rest = body[m.end():]
    m2 = re.search(r"print_code_location\s*\(\s*&mut\s+\w+\s*,\s*&\s*(\w+)\s*,\s*&\s*(\w+)\s*\)", rest)
    if not m2 or m2.group(1) != m2.group(2):
        fail("CompactFormat::write_trace: print_code_location(&mut n, &location, &location) not found")
    locv = m2.group(1)
    seg = rest[:m2.start()]
    # normalise the two library-specific expressions, then parse the segment as statements
    seg, n1 = re.subn(r"path\s*\.\s*code\s*\(\s*\)\s*\.\s*len\s*\(\s*\)", "code__.len()", seg)
    seg, n2 = re.subn(r"path\s*\.\s*map_source_locations\s*\(\s*&\s*\[\s*(\w+)\s+as\s+u32\s*\]\s*\)\s*\.\s*into_iter\s*\(\s*\)"
                      r"\s*\.\s*next\s*\(\s*\)\s*\.\s*unwrap\s*\(\s*\)", r"map1__(\1)", seg)
    if n1 < 1 or n2 != 1:
        fail("CompactFormat::write_trace: path.code().len() / path.map_source_locations(&[offset as u32]) not found")
    seg = re.sub(r"write!\s*\(\s*n\s*,\s*\":\"\s*\)\s*\.\s*unwrap\s*\(\s*\)\s*;", "", seg)
    stmts = parse_block("{" + seg + "}", "CompactFormat syntax-error branch")
    fn = SynFn("gen_syntax_error_location", fields, strs=["code__"], what="CompactFormat syntax-error branch")
    fn.declare(["code__", "offset"])
    term = fn.seq(stmts, {"tail": g(locv), "brk": None, "kind": "fn"})
    if locv not in fn.scope:
        fail(f"CompactFormat::write_trace: `{locv}` is not bound in the branch")
    return ("(* ---- trace/mod.rs: CompactFormat::write_trace, ImportSyntaxError branch ----\n"
            "   code__ = path.code(), offset = error.location.offset, map1__ o = the one location of\n"
            "   path.map_source_locations(&[o]); result: the location printed twice by print_code_location *)\n"
            "Definition gen_syntax_error_location (map1__ : N -> CodeLocation) (code__ : list N) (offset : N) "
            ": CodeLocation :=\n"
            f"{term}.\n")


class SynFn(Fn):
    """adds: `let b = if c { x = e; true } else { false };`, map1__(o), struct variables"""

    def ex(self, e):
        if e[0] == "call" and e[1] == ["map1__"] and len(e[2]) == 1:
            return f"(map1__ {self.ex(e[2][0])})"
        if e[0] == "var" and e[1] in ("true", "false"):
            return e[1]
        return super().ex(e)

    def seq(self, stmts, ctx):
        if stmts and stmts[0][0] == "let" and stmts[0][3][0] == "if":
            s, rest = stmts[0], stmts[1:]
            e = s[3]
            a, b = e[2], e[3]
            if b is None or not a or not b or a[-1][0] != "tail" or b[-1][0] != "tail":
                self.err("`let x = if ..` whose branches do not end in a value")
            r, w = set(), set()
            stmts_rw(a[:-1], r, w)
            stmts_rw(b[:-1], r, w)
            ws = self.ordered(w)
            name = s[2][1]
            tup = "(" + ", ".join([g(name)] + [g(x) for x in ws]) + ")"
            saved = list(self.scope)
            ta = super().seq(a[:-1], {"tail": "(" + ", ".join([self.ex(a[-1][1])] + [g(x) for x in ws]) + ")",
                                      "brk": None, "kind": "loop"})
            self.scope = list(saved)
            tb = super().seq(b[:-1], {"tail": "(" + ", ".join([self.ex(b[-1][1])] + [g(x) for x in ws]) + ")",
                                      "brk": None, "kind": "loop"})
            self.scope = saved
            cond = self.ex(e[1])
            self.declare([name])
            q = "'" if ws else ""
            return f"let {q}{tup} := (if {cond}\nthen (\n{ta})\nelse (\n{tb})) in\n" + self.seq(rest, ctx)
        return super().seq(stmts, ctx)


@generator("GenLoc")
def gen_loc():
    loc = src("crates/jrsonnet-ir/src/location.rs")
    tr = src("crates/jrsonnet-evaluator/src/trace/mod.rs")
    fields = struct_fields(loc)
    return (PRELUDE + "(* ---- crates/jrsonnet-ir/src/location.rs: struct CodeLocation ---- *)\n" + emit_struct(fields) + "\n"
            + gen_offset_to_location(loc, fields) + "\n"
            + gen_print_code_location(tr, fields) + "\n"
            + gen_js(tr, fields) + "\n"
            + gen_syntax_error(tr, fields))
