"""GenCli.v: the option structs of crates/jrsonnet-cli translated into Gallina.

What is read, and how (everything else raises TranslateError = fail closed):

* manifest.rs  `enum ManifestFormatName` -> the constructors of `gfmt`;
               `struct ManifestOpts` (fields, types, clap `conflicts_with`) -> `gen_manifest_conflicts`;
               `fn manifest_format` -> `gen_manifest_format`, translated expression by expression by a recursive
               descent over the token stream.  Translated Rust subset:
                   block      { (let NAME [: TYPE] = EXPR ;)* EXPR }
                   EXPR       if COND BLOCK else BLOCK | match SCRUT { ARM,* } | Box::new(EXPR) | NAME
                              | ManifestFormatName::V | UnitWriter | Writer::cli(ARG,*)
                              | self.FIELD | self.FIELD.unwrap_or(LITERAL)
                   ARM        Some(NAME) | None | ManifestFormatName::V | _   [if COND]  => EXPR
                   COND       self.FIELD | !self.FIELD
               arms are sequential (first matching arm whose guard holds), `#[cfg(feature = ..)]` items are left out.
* tla.rs       `struct TlaOpts` + `fn tla_opts`: every `for ext in &self.VEC { out.insert(KEY, TlaArg::CTOR(PAYLOAD)); }`
               loop in source order -> one row (VEC, key field, CTOR, payload field) of `gen_tla_loops`.
* stdlib.rs    `struct ExtStr`, `struct ExtFile` (the fields a row may mention), `struct StdOpts` +
               `fn context_initializer`: the same loops over `ctx.settings_mut().ext_vars.insert(..)` -> `gen_ext_loops`.
* lib.rs       `fn import_resolver`: statement by statement into a `let` chain over the list of directories
               (`self.jpath.clone()`, `.reverse()`, `if let Some(path) = env::var_os("VAR") { .extend(env::split_paths(..)) }`,
               `FileImportResolver::new(library_paths)`) -> `gen_import_resolver`, `gen_path_env_var`.
"""
import re

from gen import TranslateError, generator, src

TOK = re.compile(r'\s*(?:(//[^\n]*)|("(?:[^"\\]|\\.)*")|(\'(?:[^\'\\]|\\.)\'|\'[A-Za-z_]\w*)|([A-Za-z_]\w*)|(\d+)|'
                 r'(::|=>|->|==|!=|&&|\|\||[{}()\[\];,.&=<>|!#?:+\-*/@]))')


def toks(text, what):
    text = re.sub(r"/\*.*?\*/", " ", text, flags=re.S)
    out, i = [], 0
    while True:
        m = TOK.match(text, i)
        if not m:
            if text[i:].strip() == "":
                return out
            raise TranslateError(f"{what}: cannot tokenise near `{text[i:i + 30].strip()}`")
        i = m.end()
        if m.group(1) is None:
            out.append(m.group(0).strip())


OPEN = {"{": "}", "(": ")", "[": "]"}


def balanced(t, i, what):
    """t[i] is an opening bracket; index just after its partner"""
    if i >= len(t) or t[i] not in OPEN:
        raise TranslateError(f"{what}: bracket expected")
    stack = []
    j = i
    while j < len(t):
        if t[j] in OPEN:
            stack.append(OPEN[t[j]])
        elif t[j] in OPEN.values():
            if not stack or stack.pop() != t[j]:
                raise TranslateError(f"{what}: unbalanced brackets")
            if not stack:
                return j + 1
        j += 1
    raise TranslateError(f"{what}: unbalanced brackets")


def find_seq(t, seq, what):
    hits = [i for i in range(len(t) - len(seq) + 1) if t[i:i + len(seq)] == seq]
    if len(hits) != 1:
        raise TranslateError(f"{what}: expected exactly one `{' '.join(seq)}`, found {len(hits)}")
    return hits[0]


def fn_body(t, name, what):
    """tokens between the braces of `fn name`"""
    i = find_seq(t, ["fn", name, "("], what)
    j = balanced(t, i + 2, what)
    while j < len(t) and t[j] != "{":
        if t[j] == ";":
            raise TranslateError(f"{what}: fn {name} has no body")
        j += 1
    k = balanced(t, j, what)
    return t[j + 1:k - 1]


def is_cfg_feature(attr):
    return attr[:4] == ["cfg", "(", "feature", "="] and len(attr) == 6 and attr[5] == ")"


def strip_cfg(t, what):
    """remove `#[cfg(feature = "..")]` together with the statement / argument it guards; any other attribute in a
    function body is not understood"""
    out, i, dropped = [], 0, 0
    while i < len(t):
        if t[i] == "#":
            j = balanced(t, i + 1, what)
            attr = t[i + 2:j - 1]
            if is_cfg_feature(attr):
                end = ";" if t[j] == "let" else ","
                depth, k = 0, j
                while k < len(t):
                    if t[k] in OPEN:
                        depth += 1
                    elif t[k] in OPEN.values():
                        if depth == 0:
                            raise TranslateError(f"{what}: cfg-guarded item does not end with `{end}`")
                        depth -= 1
                    elif t[k] == end and depth == 0:
                        break
                    k += 1
                i = k + 1
                dropped += 1
                continue
            if attr[:1] == ["allow"]:
                i = j
                continue
            raise TranslateError(f"{what}: attribute `#[{' '.join(attr)[:40]}]` inside a body")
        out.append(t[i])
        i += 1
    return out, dropped


def struct_fields(t, name, what):
    """[(field, type tokens, [attr token lists])] of `struct name { .. }`, cfg(feature) fields left out"""
    i = find_seq(t, ["struct", name, "{"], what)
    k = balanced(t, i + 2, what)
    b = t[i + 3:k - 1]
    fields, attrs, j = [], [], 0
    while j < len(b):
        if b[j] == "#":
            e = balanced(b, j + 1, what)
            attrs.append(b[j + 2:e - 1])
            j = e
            continue
        if b[j] == "pub":
            j += 1
            if b[j] == "(":
                j = balanced(b, j, what)
        fname = b[j]
        if not re.fullmatch(r"[a-z_]\w*", fname) or j + 1 >= len(b) or b[j + 1] != ":":
            raise TranslateError(f"{what}: struct {name}: field expected at `{' '.join(b[j:j + 4])}`")
        j += 2
        ty, depth = [], 0
        while j < len(b) and not (b[j] == "," and depth == 0):
            if b[j] == "<":
                depth += 1
            elif b[j] == ">":
                depth -= 1
            ty.append(b[j])
            j += 1
        j += 1
        if not any(is_cfg_feature(a) for a in attrs):
            fields.append((fname, ty, attrs))
        attrs = []
    return fields


def enum_variants(t, name, what):
    i = find_seq(t, ["enum", name, "{"], what)
    k = balanced(t, i + 2, what)
    b = t[i + 3:k - 1]
    out, j = [], 0
    while j < len(b):
        if b[j] == "#":
            j = balanced(b, j + 1, what)
            continue
        if not re.fullmatch(r"[A-Z]\w*", b[j]):
            raise TranslateError(f"{what}: enum {name}: variant expected at `{b[j]}`")
        out.append(b[j])
        j += 1
        if j < len(b):
            if b[j] != ",":
                raise TranslateError(f"{what}: enum {name}: variants with payload are not translated")
            j += 1
    return out


# ------------------------------------------------------------------ manifest_format
UNIT_WRITERS = {"StringFormat": "GW_StringFormat", "ToStringFormat": "GW_ToStringFormat"}
CLI_WRITERS = {"JsonFormat": ("GW_JsonCli", 1), "YamlFormat": ("GW_YamlCli", 1), "TomlFormat": ("GW_TomlCli", 1),
               "XmlJsonmlFormat": ("GW_XmlJsonmlCli", 0), "IniFormat": ("GW_IniCli", 0),
               "YamlStreamFormat": ("GW_YamlStreamCli", 1)}
OPTS = {"format": "OFormat", "string": "OString", "yaml_stream": "OYamlStream", "line_padding": "OLinePadding"}


class ExprParser:
    def __init__(self, t, fields, variants, what):
        self.t, self.i, self.fields, self.variants, self.what = t, 0, fields, variants, what
        self.scope = []

    def err(self, msg):
        raise TranslateError(f"{self.what}: {msg} at `{' '.join(self.t[self.i:self.i + 8])}`")

    def peek(self, k=0):
        return self.t[self.i + k] if self.i + k < len(self.t) else None

    def eat(self, x):
        if self.peek() != x:
            self.err(f"`{x}` expected")
        self.i += 1

    def ident(self):
        x = self.peek()
        if x is None or not re.fullmatch(r"[A-Za-z_]\w*", x):
            self.err("identifier expected")
        self.i += 1
        return x

    def field(self):
        """after `self .`"""
        f = self.ident()
        if f not in self.fields:
            self.err(f"self.{f} is not a translated field of the option struct")
        return f

    def block_items(self):
        """(let ..;)* EXPR  up to the closing brace / end"""
        mark = len(self.scope)
        lets = []
        while self.peek() == "let":
            self.eat("let")
            if self.peek() == "mut":
                self.err("`let mut` is not translated")
            name = self.ident()
            if self.peek() == ":":
                depth = 0
                self.i += 1
                while self.peek() is not None and not (self.peek() == "=" and depth == 0):
                    depth += {"<": 1, ">": -1}.get(self.peek(), 0)
                    self.i += 1
            self.eat("=")
            e = self.expr()
            self.eat(";")
            self.scope.append(name)
            lets.append((name, e))
        e = self.expr()
        del self.scope[mark:]
        for name, v in reversed(lets):
            e = f"(let v_{name} := {v} in\n   {e})"
        return e

    def block(self):
        self.eat("{")
        e = self.block_items()
        self.eat("}")
        return e

    def cond(self):
        neg = False
        if self.peek() == "!":
            self.i += 1
            neg = True
        self.eat("self")
        self.eat(".")
        f = self.field()
        if self.fields[f] != "bool":
            self.err(f"self.{f} used as a condition but is not a bool")
        return f"(negb o_{f})" if neg else f"o_{f}"

    def expr(self):
        p = self.peek()
        if p == "if":
            self.i += 1
            c = self.cond()
            a = self.block()
            self.eat("else")
            b = self.block()
            return f"(if {c} then {a} else {b})"
        if p == "match":
            return self.match()
        if p == "self":
            self.i += 2 if self.peek(1) == "." else self.err("`self.` expected") or 0
            f = self.field()
            if self.peek() == ".":
                self.i += 1
                m = self.ident()
                if m != "unwrap_or":
                    self.err(f"method .{m}() is not translated")
                self.eat("(")
                lit = self.peek()
                if lit is None or not re.fullmatch(r"\d+", lit):
                    self.err("integer literal expected in unwrap_or")
                self.i += 1
                self.eat(")")
                if self.fields[f] != "option nat":
                    self.err(f"unwrap_or on self.{f} which is not Option<usize>")
                return f"(match o_{f} with Some x => x | None => {int(lit)} end)"
            return f"o_{f}"
        if p is not None and re.fullmatch(r"[A-Za-z_]\w*", p):
            path = [self.ident()]
            while self.peek() == "::":
                self.i += 1
                path.append(self.ident())
            if path == ["Box", "new"]:
                self.eat("(")
                e = self.expr()
                if self.peek() == ",":
                    self.i += 1
                self.eat(")")
                return e
            if len(path) == 2 and path[0] == "ManifestFormatName":
                if path[1] not in self.variants:
                    self.err(f"unknown variant ManifestFormatName::{path[1]}")
                return f"G{path[1]}"
            if len(path) == 2 and path[1] == "cli" and path[0] in CLI_WRITERS:
                ctor, arity = CLI_WRITERS[path[0]]
                self.eat("(")
                args = []
                while self.peek() != ")":
                    args.append(self.expr())
                    if self.peek() == ",":
                        self.i += 1
                    elif self.peek() != ")":
                        self.err("`,` or `)` expected")
                self.eat(")")
                if len(args) != arity:
                    self.err(f"{path[0]}::cli called with {len(args)} translated arguments, vocabulary has {arity}")
                return "(" + " ".join([ctor] + args) + ")" if args else ctor
            if len(path) == 1 and path[0] in UNIT_WRITERS and self.peek() != "(":
                return UNIT_WRITERS[path[0]]
            if len(path) == 1 and path[0] in self.scope:
                return f"v_{path[0]}"
            self.err(f"`{'::'.join(path)}` is not in the translated vocabulary")
        self.err("untranslatable expression")

    def match(self):
        self.eat("match")
        if self.peek() == "self":
            self.i += 1
            self.eat(".")
            scrut = "o_" + self.field()
        else:
            v = self.ident()
            if v not in self.scope:
                self.err(f"match on unknown name {v}")
            scrut = "v_" + v
        self.eat("{")
        arms = []
        while self.peek() != "}":
            if self.peek() == "Some":
                self.i += 1
                self.eat("(")
                b = self.ident()
                self.eat(")")
                pat = ("Some", b)
            elif self.peek() == "None":
                self.i += 1
                pat = ("None",)
            elif self.peek() == "_":
                self.i += 1
                pat = ("_",)
            elif self.peek() == "ManifestFormatName":
                self.i += 1
                self.eat("::")
                v = self.ident()
                if v not in self.variants:
                    self.err(f"unknown variant {v}")
                pat = ("V", v)
            else:
                self.err("untranslatable pattern")
            guard = None
            if self.peek() == "if":
                self.i += 1
                guard = self.cond()
            self.eat("=>")
            if pat[0] == "Some":
                self.scope.append(pat[1])
            body = self.block() if self.peek() == "{" else self.expr()
            if pat[0] == "Some":
                self.scope.pop()
            if self.peek() == ",":
                self.i += 1
            arms.append((pat, guard, body))
        self.eat("}")
        kinds = {a[0][0] for a in arms} - {"_"}
        if kinds <= {"Some", "None"} and kinds:
            def chain(sel):
                rows = [a for a in arms if a[0][0] in (sel, "_")]
                binder = None
                out = None
                for pat, guard, body in reversed(rows):
                    if pat[0] == "Some":
                        if binder not in (None, pat[1]):
                            self.err("Some(..) arms with different binders")
                        binder = pat[1]
                    if guard is None:
                        out = body          # arms after an unguarded one are unreachable
                    else:
                        if out is None:
                            self.err(f"match is not exhaustive for {sel}")
                        out = f"(if {guard} then {body} else {out})"
                if out is None:
                    self.err(f"match has no arm for {sel}")
                return binder, out
            sb, se = chain("Some")
            _, ne = chain("None")
            return f"(match {scrut} with Some {'v_' + sb if sb else '_'} => {se} | None => {ne} end)"
        if kinds == {"V"}:
            rows = []
            for pat, guard, body in arms:
                if guard is not None:
                    self.err("guards on enum arms are not translated")
                rows.append(f"    | {'G' + pat[1] if pat[0] == 'V' else '_'} => {body}")
            return f"(match {scrut} with\n" + "\n".join(rows) + "\n    end)"
        self.err("match with mixed or no patterns")


RUST_TYPES = {"bool": "bool", "Option < ManifestFormatName >": "option gfmt", "Option < usize >": "option nat"}


def gen_manifest():
    what = "cli/manifest.rs"
    t = toks(src("crates/jrsonnet-cli/src/manifest.rs"), what)
    variants = enum_variants(t, "ManifestFormatName", what)
    if len(set(variants)) != len(variants) or not variants:
        raise TranslateError(f"{what}: bad variant list")
    fields = {}
    conflicts = []
    for name, ty, attrs in struct_fields(t, "ManifestOpts", what):
        tys = " ".join(ty)
        if name not in OPTS or tys not in RUST_TYPES:
            raise TranslateError(f"{what}: ManifestOpts.{name}: {tys} is not in the translated vocabulary")
        fields[name] = RUST_TYPES[tys]
        for a in attrs:
            if a[:1] != ["clap"]:
                continue
            for k in range(len(a)):
                if a[k].startswith("conflicts_with") or a[k] in ("requires", "required_unless_present", "overrides_with"):
                    if a[k] != "conflicts_with" or a[k + 1] != "=" or not re.fullmatch(r'"\w+"', a[k + 2]):
                        raise TranslateError(f"{what}: ManifestOpts.{name}: relation `{' '.join(a[k:k + 3])}` not translated")
                    other = a[k + 2].strip('"')
                    if other not in OPTS:
                        raise TranslateError(f"{what}: conflicts_with unknown option {other}")
                    conflicts.append((OPTS[name], OPTS[other]))
    expect = {"format": "option gfmt", "string": "bool", "yaml_stream": "bool", "line_padding": "option nat"}
    if fields != expect:
        raise TranslateError(f"{what}: ManifestOpts fields {fields} differ from the translated record {expect}")
    body, dropped = strip_cfg(fn_body(t, "manifest_format", what), what)
    p = ExprParser(body, fields, variants, what + " manifest_format")
    term = p.block_items()
    if p.i != len(body):
        p.err("trailing tokens after the function's final expression")
    return (
        "(* enum ManifestFormatName, variants in source order *)\n"
        f"Inductive gfmt := {' | '.join('G' + v for v in variants)}.\n"
        "(* vocabulary of writers (fixed text): the constructor names are the Rust constructors called *)\n"
        "Inductive gwriter := GW_StringFormat | GW_ToStringFormat | GW_JsonCli (padding : nat) | GW_YamlCli (padding : nat)\n"
        "                   | GW_TomlCli (padding : nat) | GW_XmlJsonmlCli | GW_IniCli | GW_YamlStreamCli (inner : gwriter).\n"
        "Inductive gopt := OFormat | OString | OYamlStream | OLinePadding.\n"
        "(* clap conflicts_with relations of struct ManifestOpts, in source order: (option, conflicts with) *)\n"
        f"Definition gen_manifest_conflicts : list (gopt * gopt) := [{'; '.join(f'({a}, {b})' for a, b in conflicts)}].\n"
        f"(* ManifestOpts::manifest_format ({dropped} items under #[cfg(feature = ..)] left out) *)\n"
        "Definition gen_manifest_format (o_format : option gfmt) (o_string o_yaml_stream : bool) (o_line_padding : option nat)\n"
        f"  : gwriter :=\n  {term}.\n"
    )


# ------------------------------------------------------------------ tla / ext loops
VECS = {"str": "VStr", "str_file": "VStrFile", "code": "VCode", "code_file": "VCodeFile"}
GFIELD = {"name": "FName", "value": "FValue", "path": "FPath"}
CTORS = {"String": "CString", "InlineCode": "CInlineCode", "ImportStr": "CImportStr", "Import": "CImport"}


def split_args(t, what):
    """top-level comma split of an argument token list (a trailing comma is allowed)"""
    args, cur, depth = [], [], 0
    for x in t:
        if x in OPEN:
            depth += 1
        elif x in OPEN.values():
            depth -= 1
        if x == "," and depth == 0:
            args.append(cur)
            cur = []
        else:
            cur.append(x)
    if cur:
        args.append(cur)
    return args


def ext_field(t, elem_fields, conv_ok, what):
    """`ext.F.as_str().into()` or `ext.F.clone()`: content-preserving conversions of field F"""
    s = " ".join(t)
    m = re.fullmatch(r"ext \. (\w+) (\. as_str \( \) \. into \( \)|\. clone \( \)|\. as_str \( \) \. to_owned \( \)|"
                     r"\. to_owned \( \)|\. to_string \( \))", s)
    if not m:
        raise TranslateError(f"{what}: `{s}` is not a translated use of the loop variable")
    f = m.group(1)
    if f not in elem_fields:
        raise TranslateError(f"{what}: ext.{f}: the element type has fields {sorted(elem_fields)}")
    if f not in GFIELD:
        raise TranslateError(f"{what}: field {f} not in the vocabulary")
    return GFIELD[f]


def loops(body, prefix, opts_fields, elem_structs, insert_recv, what):
    """body tokens = a sequence of `for ext in &self.VEC { RECV.insert(K, TlaArg::C(P)); }`; -> rows"""
    rows, i = [], 0
    while i < len(body):
        if body[i:i + 6] != ["for", "ext", "in", "&", "self", "."]:
            raise TranslateError(f"{what}: `for ext in &self.<vec>` expected at `{' '.join(body[i:i + 8])}`")
        vec = body[i + 6]
        if vec not in opts_fields:
            raise TranslateError(f"{what}: self.{vec} is not a field of the option struct")
        if not vec.startswith(prefix) or vec[len(prefix):] not in VECS:
            raise TranslateError(f"{what}: vector {vec} not in the vocabulary")
        ety = " ".join(opts_fields[vec])
        m = re.fullmatch(r"Vec < (\w+) >", ety)
        if not m or m.group(1) not in elem_structs:
            raise TranslateError(f"{what}: self.{vec} has type {ety}")
        efields = elem_structs[m.group(1)]
        j = balanced(body, i + 7, what)
        inner = body[i + 8:j - 1]
        n = len(insert_recv)
        if inner[:n] != insert_recv or inner[n:n + 3] != [".", "insert", "("] or inner[-2:] != [")", ";"]:
            raise TranslateError(f"{what}: loop over {vec}: body is not a single `{' '.join(insert_recv)}.insert(..);`")
        if balanced(inner, n + 2, what) != len(inner) - 1:
            raise TranslateError(f"{what}: loop over {vec}: more than one statement")
        args = split_args(inner[n + 3:-2], what)
        if len(args) != 2:
            raise TranslateError(f"{what}: insert with {len(args)} arguments")
        key = ext_field(args[0], efields, True, what)
        v = args[1]
        if v[:2] != ["TlaArg", "::"] or v[2] not in CTORS or v[3] != "(" or v[-1] != ")":
            raise TranslateError(f"{what}: value `{' '.join(v)[:60]}` is not TlaArg::<ctor>(..)")
        pay = ext_field(v[4:-1], efields, True, what)
        rows.append((VECS[vec[len(prefix):]], key, CTORS[v[2]], pay))
        i = j
    return rows


def elem_structs_of(t_std):
    out = {}
    for s in ("ExtStr", "ExtFile"):
        fs = struct_fields(t_std, s, "cli/stdlib.rs")
        for n, ty, _ in fs:
            if ty != ["String"]:
                raise TranslateError(f"cli/stdlib.rs: {s}.{n} is not a String")
        out[s] = {n for n, _, _ in fs}
    if out["ExtStr"] != {"name", "value"} or out["ExtFile"] != {"name", "path"}:
        raise TranslateError(f"cli/stdlib.rs: ExtStr/ExtFile fields changed: {out}")
    return out


def rows_text(rows):
    return "[" + ";\n    ".join(f"({v}, {k}, {c}, {p})" for v, k, c, p in rows) + "]"


def gen_tla(elems):
    what = "cli/tla.rs"
    t = toks(src("crates/jrsonnet-cli/src/tla.rs"), what)
    fields = {n: ty for n, ty, _ in struct_fields(t, "TlaOpts", what)}
    body, _ = strip_cfg(fn_body(t, "tla_opts", what), what)
    head = "let mut out = FxHashMap :: new ( ) ;".split()
    if body[:len(head)] != head:
        raise TranslateError(f"{what}: tla_opts does not start with an empty map `out`")
    if body[-4:] != ["Ok", "(", "out", ")"]:
        raise TranslateError(f"{what}: tla_opts does not end with Ok(out)")
    return loops(body[len(head):-4], "tla_", fields, elems, ["out"], what)


def gen_ext(t, elems):
    what = "cli/stdlib.rs"
    fields = {n: ty for n, ty, _ in struct_fields(t, "StdOpts", what)}
    body, _ = strip_cfg(fn_body(t, "context_initializer", what), what)
    head = ("if self . no_stdlib { return Ok ( None ) ; } "
            "let ctx = ContextInitializer :: new ( PathResolver :: new_cwd_fallback ( ) ) ;").split()
    if body[:len(head)] != head:
        raise TranslateError(f"{what}: context_initializer prologue changed: `{' '.join(body[:len(head)])[:120]}`")
    if body[-7:] != ["Ok", "(", "Some", "(", "ctx", ")", ")"]:
        raise TranslateError(f"{what}: context_initializer does not end with Ok(Some(ctx))")
    return loops(body[len(head):-7], "ext_", fields, elems, "ctx . settings_mut ( ) . ext_vars".split(), what)


# ------------------------------------------------------------------ import_resolver
EMPTY = '""'


def gen_resolver():
    what = "cli/lib.rs"
    t = toks(src("crates/jrsonnet-cli/src/lib.rs"), what)
    fields = {n: " ".join(ty) for n, ty, _ in struct_fields(t, "MiscOpts", what)}
    if fields.get("jpath") != "Vec < PathBuf >":
        raise TranslateError(f"{what}: MiscOpts.jpath is not Vec<PathBuf>")
    body, _ = strip_cfg(fn_body(t, "import_resolver", what), what)
    s = " ".join(body)
    lets = []
    var = None
    envvar = None
    while s:
        m = re.match(r"let mut (\w+) = self \. jpath \. clone \( \) ; ?", s)
        if m and var is None:
            var = m.group(1)
            lets.append("jpath")
            s = s[m.end():]
            continue
        if var:
            m = re.match(rf"{var} \. reverse \( \) ; ?", s)
            if m:
                lets.append("rev lp")
                s = s[m.end():]
                continue
            m = re.match(rf'if let Some \( (\w+) \) = env :: var_os \( ("\w+") \) \{{ {var} \. extend \( env :: split_paths '
                         rf'\( (?:& )?(\w+)(?: \. as_os_str \( \))? \) \) ; \}} ?', s)
            if m and m.group(1) == m.group(3):
                if envvar not in (None, m.group(2)):
                    raise TranslateError(f"{what}: two different environment variables")
                envvar = m.group(2)
                lets.append("(match env with Some dirs => (lp ++ dirs)%list | None => lp end)")
                s = s[m.end():]
                continue
            m = re.fullmatch(rf"FileImportResolver :: new \( {var} \)", s)
            if m:
                s = ""
                break
        raise TranslateError(f"{what}: import_resolver: untranslatable statement `{s[:80]}`")
    else:
        raise TranslateError(f"{what}: import_resolver has no final FileImportResolver::new(..)")
    if var is None:
        raise TranslateError(f"{what}: import_resolver: no list of library paths")
    term = "lp"
    for e in reversed(lets):
        term = f"let lp := {e} in\n  {term}"
    return (
        "(* MiscOpts::import_resolver: the list handed to FileImportResolver::new; [env] = the directories of\n"
        "   env::split_paths(value of the variable) when the variable is set *)\n"
        "Definition gen_path_env_var : string := " + (envvar if envvar else EMPTY) + ".\n"
        "Definition gen_import_resolver {A : Type} (jpath : list A) (env : option (list A)) : list A :=\n"
        f"  {term}.\n"
    )


@generator("GenCli")
def gen_cli():
    t_std = toks(src("crates/jrsonnet-cli/src/stdlib.rs"), "cli/stdlib.rs")
    elems = elem_structs_of(t_std)
    tla = gen_tla(elems)
    ext = gen_ext(t_std, elems)
    return (
        "From Coq Require Import List Bool String.\n"
        "Import ListNotations.\n"
        "Open Scope string_scope.\n"
        + gen_manifest() +
        "(* vocabulary of the option -> argument loops (fixed text) *)\n"
        "Inductive gvec := VStr | VStrFile | VCode | VCodeFile.     (* --X-str, --X-str-file, --X-code, --X-code-file *)\n"
        "Inductive gfield := FName | FValue | FPath.                (* fields of ExtStr {name, value} / ExtFile {name, path} *)\n"
        "Inductive gctor := CString | CInlineCode | CImportStr | CImport.   (* TlaArg constructors *)\n"
        "(* TlaOpts::tla_opts: one row per `for ext in &self.<vec> { out.insert(ext.<key>, TlaArg::<ctor>(ext.<payload>)) }`,\n"
        "   in source order, starting from an empty map *)\n"
        f"Definition gen_tla_loops : list (gvec * gfield * gctor * gfield) :=\n   {rows_text(tla)}.\n"
        "(* StdOpts::context_initializer: the same for `ctx.settings_mut().ext_vars.insert(..)` *)\n"
        f"Definition gen_ext_loops : list (gvec * gfield * gctor * gfield) :=\n   {rows_text(ext)}.\n"
        + gen_resolver()
    )
