"""GenSets.v: the set merges of crates/jrsonnet-stdlib/src/sets.rs (builtin_set_union / builtin_set_inter /
builtin_set_diff) and builtin_remove_at of crates/jrsonnet-stdlib/src/arrays.rs, translated statement by
statement into Gallina over the vocabulary of C10/Model.v (lists of abstract elements, a key function that may
fail, a three-way comparison that may fail).

Translated subset of Rust (anything else raises TranslateError — fail closed):
  merges      let mut I = P.iter_lazy();                      I : iterator = the remaining list
              let keyF = |v| keyF.eval(v);                    (the key closure; recorded, emits nothing)
              let mut V = I.next();         V = I.next();     head/advance
              let mut K = V[.clone()].map(keyF).transpose()?; K = ...;      key of an optional element, `?` = error
              let mut out = Vec::new();     out.push(V.clone().expect(".."));   `expect` on None = panic
              while let (Some(x), Some(y)) = (&K1, &K2) { .. }    while let Some(x) = &K { .. }
              match evaluate_compare_op(x, y, BinaryOpType::Lt)? { Ordering::Less => {..} Ordering::Greater => {..}
                                                                  Ordering::Equal => {..} }
              Ok(ArrValue::lazy(out))
              Every Rust variable v becomes the Gallina variable r_v; the loop state is the tuple of all `let mut`
              variables in declaration order; a `while` becomes `sloop fuel body state` (fuel = 1 + both lengths; the
              theorems show it is never exhausted).
  removeAt    if C1 || C2 { return Ok(arr); }   with C = `at < 0` | `at as usize >= arr.len()` (and the other
              comparison operators), let X = arr[.clone()].slice(OPT, OPT, None); with OPT = None | Some(E),
              E = at | at + n | at - n (i32, overflow = panic), Ok(ArrValue::extended(X, Y))
"""
import re

from gen import TranslateError, generator, src

SETS = "crates/jrsonnet-stdlib/src/sets.rs"
ARRAYS = "crates/jrsonnet-stdlib/src/arrays.rs"


def strip_comments(text):
    """remove // and /* */ comments outside string literals"""
    out, i, n = [], 0, len(text)
    while i < n:
        c = text[i]
        if c == '"':
            j = i + 1
            while j < n and text[j] != '"':
                j += 2 if text[j] == "\\" else 1
            out.append(text[i:j + 1])
            i = j + 1
        elif text.startswith("//", i):
            while i < n and text[i] != "\n":
                i += 1
        elif text.startswith("/*", i):
            j = text.find("*/", i + 2)
            if j < 0:
                raise TranslateError("unterminated block comment")
            i = j + 2
        else:
            out.append(c)
            i += 1
    return "".join(out)


def braced(s, what):
    """s starts with `{`: -> (inside, rest)"""
    s = s.lstrip()
    if not s.startswith("{"):
        raise TranslateError(f"{what}: `{{` expected at `{s[:40]}`")
    depth, i, n = 0, 0, len(s)
    while i < n:
        c = s[i]
        if c == '"':
            i += 1
            while i < n and s[i] != '"':
                i += 2 if s[i] == "\\" else 1
        elif c == "{":
            depth += 1
        elif c == "}":
            depth -= 1
            if depth == 0:
                return s[1:i], s[i + 1:]
        i += 1
    raise TranslateError(f"{what}: unbalanced braces")


def fn_body(text, name, sig_re, what):
    m = re.search(r"pub fn " + name + r"\s*\(" + sig_re + r"\)\s*->\s*Result<\s*ArrValue\s*>\s*(?=\{)", text)
    if not m:
        raise TranslateError(f"{what}: `pub fn {name}` with the expected signature not found")
    body, _ = braced(text[m.end():], what)
    return body


ID = r"[A-Za-z_]\w*"


def rv(name):
    return "r_" + name


class Merge:
    """translation of one merge function"""

    def __init__(self, what, params):
        self.what = what
        self.params = set(params)       # array parameters not yet turned into iterators
        self.iters = []                 # iterator variables
        self.elems = []                 # Option<Thunk> variables (results of .next())
        self.keys = []                  # Option<Val> variables (keys)
        self.vecs = []                  # the output vector
        self.order = []                 # all `let mut` variables in declaration order = the loop state
        self.closure = False
        self.loops = []                 # (name, gallina body)

    def err(self, msg):
        raise TranslateError(f"sets.rs: {self.what}: {msg}")

    def state(self):
        return "(" + ", ".join(rv(v) for v in self.order) + ")"

    def state_type(self):
        ty = lambda v: ("list A" if v in self.iters or v in self.vecs else "option A" if v in self.elems else "option K")
        return "(" + " * ".join(ty(v) for v in self.order) + ")"

    # --- simple statements; each returns a function k -> gallina wrapping the continuation text k
    def simple(self, s, top):
        """try to translate one `;`-terminated simple statement at the start of s -> (wrap, rest) or None"""
        let = r"let\s+mut\s+" if top else ""
        m = re.match(let + rf"({ID})\s*=\s*({ID})\s*\.\s*iter_lazy\s*\(\s*\)\s*;", s) if top else None
        if m:
            v, p = m.group(1), m.group(2)
            if p not in self.params:
                self.err(f"iter_lazy() of `{p}`, which is not an unconsumed array parameter")
            self.params.discard(p)
            self.declare(v, self.iters)
            return (lambda k: f"let {rv(v)} := it_of {rv(p)} in\n{k}"), s[m.end():]
        m = re.match(rf"let\s+keyF\s*=\s*\|\s*v\s*\|\s*keyF\s*\.\s*eval\s*\(\s*v\s*\)\s*;", s) if top else None
        if m:
            if self.closure:
                self.err("key closure defined twice")
            self.closure = True
            return (lambda k: k), s[m.end():]
        m = re.match(let + rf"({ID})\s*=\s*({ID})\s*\.\s*next\s*\(\s*\)\s*;", s)
        if m:
            v, it = m.group(1), m.group(2)
            if it not in self.iters:
                self.err(f"`{it}.next()`: `{it}` is not an iterator")
            if top:
                self.declare(v, self.elems)
            elif v not in self.elems:
                self.err(f"`{v} = {it}.next()`: `{v}` is not an element variable")
            return (lambda k: f"let '({rv(v)}, {rv(it)}) := it_next {rv(it)} in\n{k}"), s[m.end():]
        m = re.match(let + rf"({ID})\s*=\s*({ID})\s*(?:\.\s*clone\s*\(\s*\)\s*)?\.\s*map\s*\(\s*keyF\s*\)\s*"
                     r"\.\s*transpose\s*\(\s*\)\s*\?\s*;", s)
        if m:
            k_, v = m.group(1), m.group(2)
            if not self.closure:
                self.err("keyF used before the key closure is defined")
            if v not in self.elems:
                self.err(f"key of `{v}`, which is not an element variable")
            if top:
                self.declare(k_, self.keys)
            elif k_ not in self.keys:
                self.err(f"`{k_} = ..key..`: `{k_}` is not a key variable")
            return (lambda k: f"sbind (key_of keyf {rv(v)}) (fun {rv(k_)} =>\n{k})"), s[m.end():]
        m = re.match(rf"let\s+mut\s+({ID})\s*=\s*Vec\s*::\s*new\s*\(\s*\)\s*;", s) if top else None
        if m:
            v = m.group(1)
            if self.vecs:
                self.err("second output vector")
            self.declare(v, self.vecs)
            return (lambda k: f"let {rv(v)} := @nil A in\n{k}"), s[m.end():]
        m = re.match(rf"({ID})\s*\.\s*push\s*\(\s*({ID})\s*\.\s*clone\s*\(\s*\)\s*\.\s*expect\s*\(\s*\"[^\"]*\"\s*\)\s*\)\s*;", s)
        if m:
            o, v = m.group(1), m.group(2)
            if o not in self.vecs:
                self.err(f"push on `{o}`, which is not the output vector")
            if v not in self.elems:
                self.err(f"push of `{v}`, which is not an element variable")
            return (lambda k: f"sbind (expect {rv(v)}) (fun e_ => let {rv(o)} := {rv(o)} ++ [e_] in\n{k})"), s[m.end():]
        return None

    def declare(self, v, kind):
        if v in self.order:
            self.err(f"`{v}` declared twice")
        kind.append(v)
        self.order.append(v)

    def block(self, s, locals_):
        """statements of a loop body / match arm -> gallina of type sres (option state): continue with the state"""
        s = s.strip()
        if not s:
            return f"SOk (Some {self.state()})"
        r = self.simple(s, top=False)
        if r:
            wrap, rest = r
            return wrap(self.block(rest, locals_))
        m = re.match(rf"match\s+evaluate_compare_op\s*\(\s*({ID})\s*,\s*({ID})\s*,\s*BinaryOpType\s*::\s*Lt\s*\)\s*\?\s*(?=\{{)", s)
        if m:
            x, y = m.group(1), m.group(2)
            for z in (x, y):
                if z not in locals_:
                    self.err(f"comparison operand `{z}` is not bound by the loop pattern")
            arms_s, rest = braced(s[m.end():], self.what)
            if rest.strip():
                self.err("statements after the `match` of a loop body")
            arms = {}
            a = arms_s.strip()
            while a:
                ma = re.match(r"Ordering\s*::\s*(Less|Greater|Equal)\s*=>\s*(?=\{)", a)
                if not ma:
                    self.err(f"unrecognised match arm at `{a[:50]}`")
                body, a = braced(a[ma.end():], self.what)
                a = a.strip()
                if a.startswith(","):
                    a = a[1:].strip()
                if ma.group(1) in arms:
                    self.err(f"arm Ordering::{ma.group(1)} twice")
                arms[ma.group(1)] = self.block(body, locals_)
            if set(arms) != {"Less", "Greater", "Equal"}:
                self.err("the match does not have exactly the arms Less / Greater / Equal")
            return (f"sbind (cmp_of cmp {locals_[x]} {locals_[y]}) (fun ord_ =>\nmatch ord_ with\n"
                    f"| Lt =>\n{arms['Less']}\n| Gt =>\n{arms['Greater']}\n| Eq =>\n{arms['Equal']}\nend)")
        self.err(f"untranslatable statement `{s[:70]}`")

    def loop(self, s):
        """`while let PAT = SCRUT {..}` at the start of s -> (name, rest) or None"""
        m = re.match(r"while\s+let\s+", s)
        if not m:
            return None
        t = s[m.end():]
        m2 = re.match(rf"\(\s*Some\s*\(\s*({ID})\s*\)\s*,\s*Some\s*\(\s*({ID})\s*\)\s*\)\s*=\s*"
                      rf"\(\s*&\s*({ID})\s*,\s*&\s*({ID})\s*\)\s*(?=\{{)", t)
        m1 = re.match(rf"Some\s*\(\s*({ID})\s*\)\s*=\s*&\s*({ID})\s*(?=\{{)", t)
        if m2:
            binds, scrut, end = [m2.group(1), m2.group(2)], [m2.group(3), m2.group(4)], m2.end()
        elif m1:
            binds, scrut, end = [m1.group(1)], [m1.group(2)], m1.end()
        else:
            self.err(f"unrecognised `while let` header `{t[:70]}`")
        if len(set(binds)) != len(binds):
            self.err("loop pattern binds a name twice")
        for k_ in scrut:
            if k_ not in self.keys:
                self.err(f"loop scrutinee `{k_}` is not a key variable")
        locals_ = {b: "l_" + b.lstrip("_") for b in binds}
        for b in binds:
            if b in self.order:
                self.err(f"loop pattern shadows `{b}`")
        body_s, rest = braced(t[end:], self.what)
        body = self.block(body_s, locals_)
        pats = ", ".join(f"Some {locals_[b]}" for b in binds)
        scr = ", ".join(rv(k_) for k_ in scrut)
        wild = ", ".join("_" for _ in binds)
        text = (f"fun s_ : {self.state_type()} =>\nlet '{self.state()} := s_ in\nmatch {scr} with\n| {pats} =>\n{body}\n| {wild} => SOk None\nend")
        name = f"loop{len(self.loops) + 1}"
        self.loops.append((name, text))
        return name, rest

    def function(self, body, gname):
        s = strip_comments(body).strip()
        pre = []            # wrappers of the straight-line prefix / between loops
        while True:
            s = s.strip()
            r = self.simple(s, top=True)
            if r:
                pre.append(r[0])
                s = r[1]
                continue
            r = self.loop(s)
            if r:
                name, s = r
                st = self.state()
                pre.append(lambda k, name=name, st=st:
                           f"sbind (sloop fuel_ {gname}_{name} {st}) (fun '{st} =>\n{k})")
                continue
            break
        m = re.fullmatch(rf"Ok\s*\(\s*ArrValue\s*::\s*lazy\s*\(\s*({ID})\s*\)\s*\)", s)
        if not m:
            self.err(f"untranslatable statement `{s[:70]}`")
        if m.group(1) not in self.vecs:
            self.err(f"the function returns `{m.group(1)}`, which is not the output vector")
        if self.params:
            self.err(f"array parameter(s) {sorted(self.params)} never iterated")
        term = f"SOk {rv(m.group(1))}"
        for w in reversed(pre):
            term = w(term)
        return term


def indent(t, n=2):
    return "\n".join(" " * n + l for l in t.split("\n"))


def merge_function(text, rust_name, gname):
    what = rust_name
    body = fn_body(text, rust_name,
                   r"\s*a\s*:\s*ArrValue\s*,\s*b\s*:\s*ArrValue\s*,\s*#\[default\]\s*keyF\s*:\s*KeyF\s*,?\s*", what)
    tr = Merge(what, ["a", "b"])
    term = tr.function(body, gname)
    out = ""
    for name, ltext in tr.loops:
        out += f"Definition {gname}_{name} :=\n{indent(ltext)}.\n"
    out += (f"Definition {gname} (r_a r_b : list A) : sres (list A) :=\n"
            f"  let fuel_ := S (length r_a + length r_b) in\n{indent(term)}.\n")
    return out, len(tr.loops)


# ------------------------------------------------------------------------------------------ removeAt
class RemoveAt:
    def err(self, msg):
        raise TranslateError(f"arrays.rs: builtin_remove_at: {msg}")

    def i32_expr(self, e):
        e = e.strip()
        if e == "at":
            return "SOk r_at"
        m = re.fullmatch(r"at\s*([+-])\s*(\d+)", e)
        if m:
            z = m.group(2) if m.group(1) == "+" else f"(- {m.group(2)})"
            return f"i32_add r_at {z}"
        self.err(f"untranslatable i32 expression `{e}`")

    def opt(self, e):
        e = e.strip()
        if e == "None":
            return "SOk None"
        m = re.fullmatch(r"Some\s*\((.*)\)", e, re.S)
        if m:
            return f"sbind ({self.i32_expr(m.group(1))}) (fun z_ => SOk (Some z_))"
        self.err(f"untranslatable slice bound `{e}`")

    def cond(self, c):
        c = c.strip()
        ops = {"<": "Z.ltb {a} {b}", "<=": "Z.leb {a} {b}", ">": "Z.ltb {b} {a}", ">=": "Z.leb {b} {a}",
               "==": "Z.eqb {a} {b}"}
        m = re.fullmatch(r"(.+?)\s*(<=|>=|==|<|>)\s*(.+)", c)
        if not m:
            self.err(f"untranslatable condition `{c}`")

        def operand(x):
            x = x.strip()
            if x == "at":
                return "r_at"
            if re.fullmatch(r"\d+", x):
                return x
            if re.fullmatch(r"at\s+as\s+usize", x):
                return "(as_usize r_at)"
            if re.fullmatch(r"arr\s*\.\s*len\s*\(\s*\)", x):
                return "(len_z r_arr)"
            self.err(f"untranslatable operand `{x}`")
        return "(" + ops[m.group(2)].format(a=operand(m.group(1)), b=operand(m.group(3))) + ")%Z"

    def function(self, body):
        s = strip_comments(body).strip()
        m = re.match(r"if\s+(.+?)\s*(?=\{)", s, re.S)
        if not m:
            self.err("the bounds `if` not found at the start")
        disj = [self.cond(c) for c in m.group(1).split("||")]
        then_s, s = braced(s[m.end():], "builtin_remove_at")
        if not re.fullmatch(r"return\s+Ok\s*\(\s*arr\s*\)\s*;", then_s.strip()):
            self.err(f"the bounds branch is not `return Ok(arr);` but `{then_s.strip()[:50]}`")
        cond = disj[0]
        for d in disj[1:]:
            cond = f"({cond} || {d})"
        binds, names = [], []
        s = s.strip()
        while True:
            m = re.match(rf"let\s+({ID})\s*=\s*arr\s*(?:\.\s*clone\s*\(\s*\)\s*)?\.\s*slice\s*\(([^;]*)\)\s*;", s)
            if not m:
                break
            args = [x.strip() for x in self.split_args(m.group(2))]
            if len(args) != 3 or args[2] != "None":
                self.err(f"slice with arguments `{m.group(2)}` (three arguments, step None expected)")
            if m.group(1) in names:
                self.err("slice variable bound twice")
            names.append(m.group(1))
            binds.append((m.group(1), self.opt(args[0]), self.opt(args[1])))
            s = s[m.end():].strip()
        m = re.fullmatch(rf"Ok\s*\(\s*ArrValue\s*::\s*extended\s*\(\s*({ID})\s*,\s*({ID})\s*\)\s*\)", s)
        if not m:
            self.err(f"untranslatable statement `{s[:70]}`")
        for x in (m.group(1), m.group(2)):
            if x not in names:
                self.err(f"`{x}` is not a slice bound above")
        term = f"SOk ({rv(m.group(1))} ++ {rv(m.group(2))})"
        for n, f, t in reversed(binds):
            term = (f"sbind ({f}) (fun from_ => sbind ({t}) (fun to_ =>\n"
                    f"let {rv(n)} := arr_slice from_ to_ r_arr in\n{term}))")
        return f"if {cond} then SOk r_arr else\n{term}"

    @staticmethod
    def split_args(s):
        out, depth, cur = [], 0, ""
        for c in s:
            if c == "(":
                depth += 1
            elif c == ")":
                depth -= 1
            if c == "," and depth == 0:
                out.append(cur)
                cur = ""
            else:
                cur += c
        if cur.strip():
            out.append(cur)
        return out


def slice_semantics(text):
    """ArrValue::slice's index clamp is vocabulary (arr_slice); its three arms are pinned here so that a change of
    the clamp makes the translator refuse instead of silently keeping the old meaning"""
    t = re.sub(r"\s+", " ", strip_comments(text))
    need = ["Some(v) if v < 0 => len.saturating_sub(v.unsigned_abs() as usize),",
            "Some(v) => (v as usize).min(len),", "None => default,",
            "let index = get_idx(index, self.len(), 0);", "let end = get_idx(end, self.len(), self.len());",
            "if index >= end { return Self::empty(); }"]
    for n in need:
        if n not in t:
            raise TranslateError(f"arr/mod.rs: ArrValue::slice no longer contains `{n}` (arr_slice vocabulary is stale)")


PRELUDE = """From Coq Require Import List ZArith Bool.
From JrV Require Import C10.Model.
Import ListNotations.
Open Scope nat_scope.

(** Fixed vocabulary (semantics of the Rust primitives the translated text uses).
    [SErr] = a Jsonnet error propagated by `?`, [SPanic] = `.expect()` on None / i32 overflow (the harness is built
    with overflow checks), [SFuel] = the model's loop fuel ran out (excluded by the theorems). *)
Inductive sres (X : Type) := SOk (x : X) | SErr | SPanic | SFuel.
Arguments SOk {X} x.
Arguments SErr {X}.
Arguments SPanic {X}.
Arguments SFuel {X}.
Definition sbind {X Y} (r : sres X) (f : X -> sres Y) : sres Y :=
  match r with SOk x => f x | SErr => SErr | SPanic => SPanic | SFuel => SFuel end.
(* `while`: the body answers Some state' (next iteration) or None (the loop condition does not hold) *)
Fixpoint sloop {S : Type} (fuel : nat) (body : S -> sres (option S)) (s : S) : sres S :=
  match fuel with
  | O => SFuel
  | S f => match body s with
           | SOk (Some s') => sloop f body s'
           | SOk None => SOk s
           | SErr => SErr | SPanic => SPanic | SFuel => SFuel
           end
  end.
(* ArrValue::iter_lazy / Iterator::next over the remaining elements *)
Definition it_of {X} (l : list X) : list X := l.
Definition it_next {X} (l : list X) : option X * list X :=
  match l with [] => (None, []) | x :: r => (Some x, r) end.
(* Option::map(keyF).transpose()? *)
Definition key_of {X Y} (keyf : X -> option Y) (v : option X) : sres (option Y) :=
  match v with
  | None => SOk None
  | Some x => match keyf x with Some k => SOk (Some k) | None => SErr end
  end.
(* Option::expect *)
Definition expect {X} (v : option X) : sres X := match v with Some x => SOk x | None => SPanic end.
(* evaluate_compare_op(..)? *)
Definition cmp_of {Y} (cmp : Y -> Y -> option comparison) (x y : Y) : sres comparison :=
  match cmp x y with Some c => SOk c | None => SErr end.
(* i32 `+` with overflow checks; `as usize` of an i32 (64-bit two's complement); usize len as an integer *)
Definition i32_add (a b : Z) : sres Z :=
  let r := (a + b)%Z in if ((- 2 ^ 31 <=? r) && (r <=? 2 ^ 31 - 1))%Z then SOk r else SPanic.
Definition as_usize (z : Z) : Z := (z mod 2 ^ 64)%Z.
Definition len_z {X} (l : list X) : Z := Z.of_nat (length l).
(* ArrValue::slice(index, end, None): get_idx clamps (negative = from the end, saturating), empty when index >= end *)
Definition slice_idx (pos : option Z) (len : nat) (default : nat) : nat :=
  match pos with
  | Some v => if (v <? 0)%Z then len - Z.to_nat (- v) else Nat.min (Z.to_nat v) len
  | None => default
  end.
Definition arr_slice {X} (index end_ : option Z) (l : list X) : list X :=
  let i := slice_idx index (length l) 0 in
  let e := slice_idx end_ (length l) (length l) in
  if e <=? i then [] else firstn (e - i) (skipn i l).

(** Translated text.  Rust variable v = Gallina r_v; loop state = all `let mut` variables in declaration order. *)
"""


@generator("GenSets")
def gen_sets():
    text = src(SETS)
    out = PRELUDE
    out += ("Section Merges.\n  Context {A K : Type}.\n  Variable keyf : A -> option K.\n"
            "  Variable cmp : K -> K -> option comparison.\n")
    body = ""
    for rust, g in (("builtin_set_union", "gen_set_union"), ("builtin_set_inter", "gen_set_inter"),
                    ("builtin_set_diff", "gen_set_diff")):
        t, _ = merge_function(text, rust, g)
        body += f"(* sets.rs {rust} *)\n{t}"
    out += indent(body) + "\nEnd Merges.\n"
    atext = src(ARRAYS)
    slice_semantics(src("crates/jrsonnet-evaluator/src/arr/mod.rs"))
    m = re.search(r"pub fn builtin_remove_at\s*\(\s*arr\s*:\s*ArrValue\s*,\s*at\s*:\s*i32\s*,?\s*\)\s*->\s*"
                  r"Result<\s*ArrValue\s*>\s*(?=\{)", atext)
    if not m:
        raise TranslateError("arrays.rs: `pub fn builtin_remove_at(arr: ArrValue, at: i32) -> Result<ArrValue>` not found")
    rbody, _ = braced(atext[m.end():], "builtin_remove_at")
    out += ("(* arrays.rs builtin_remove_at (at : i32) *)\n"
            "Definition gen_remove_at {A : Type} (r_arr : list A) (r_at : Z) : sres (list A) :=\n"
            + indent(RemoveAt().function(rbody)) + ".\n")
    return out
