"""GenEscape.v: the JSON string-escape table, the escape match arms and the JsonFormat presets,
read from crates/jrsonnet-evaluator/src/manifest.rs (+ the std.manifestJson defaults from
crates/jrsonnet-stdlib/src/manifest/mod.rs).  Fail closed: anything not recognised raises."""
import re

from gen import TranslateError, generator, one, src

MTYPES = {"Manifest": 0, "Std": 1, "ToString": 2, "Minify": 3}


def strip_comments(t):
    t = re.sub(r"/\*.*?\*/", "", t, flags=re.S)
    return re.sub(r"//[^\n]*", "", t)


def rust_bytes(lit):
    """contents of a Rust "..." literal (simple escapes only) -> list of byte values"""
    out, i = [], 0
    while i < len(lit):
        c = lit[i]
        if c == "\\":
            i += 1
            if i >= len(lit):
                raise TranslateError("dangling backslash in string literal")
            m = {"n": 10, "t": 9, "r": 13, "\\": 92, '"': 34, "'": 39, "0": 0}
            if lit[i] not in m:
                raise TranslateError(f"unsupported escape \\{lit[i]} in string literal")
            out.append(m[lit[i]])
        else:
            out.extend(c.encode("utf-8"))
        i += 1
    return out


def byte_const(expr, what):
    expr = expr.strip()
    m = re.fullmatch(r"b'(\\?.)'", expr)
    if m:
        v = rust_bytes(m.group(1))
        if len(v) != 1:
            raise TranslateError(f"{what}: bad byte literal {expr}")
        return v[0]
    if re.fullmatch(r"\d+", expr):
        return int(expr)
    if re.fullmatch(r"0x[0-9a-fA-F]+", expr):
        return int(expr, 16)
    raise TranslateError(f"{what}: unrecognised byte constant `{expr}`")


def nlist(xs):
    return "[" + "; ".join(str(x) for x in xs) + "]"


def fn_body(text, header_re, what):
    """text of the brace-balanced body of the single fn whose header matches header_re"""
    ms = list(re.finditer(header_re, text))
    if len(ms) != 1:
        raise TranslateError(f"{what}: expected one match of /{header_re}/, found {len(ms)}")
    i = text.index("{", ms[0].end() - 1) if text[ms[0].end() - 1] != "{" else ms[0].end() - 1
    depth, j = 0, i
    while j < len(text):
        if text[j] == "{":
            depth += 1
        elif text[j] == "}":
            depth -= 1
            if depth == 0:
                return text[i + 1:j]
        j += 1
    raise TranslateError(f"{what}: unbalanced braces")


def preset(body, what):
    """the LAST `Self { ... }` literal of a constructor body -> (padding, mtype, newline, kvsep)
    each either a byte list or a symbolic marker string"""
    ms = list(re.finditer(r"Self\s*\{", body))
    if not ms:
        raise TranslateError(f"{what}: no Self literal")
    lit = body[ms[-1].end():]

    def field(name):
        m = re.findall(rf"\b{name}\s*:\s*([^\n]*?),\s*\n", lit)
        if len(m) < 1:
            # shorthand `newline,`
            if re.search(rf"^\s*{name},\s*$", lit, re.M):
                return "param"
            raise TranslateError(f"{what}: field {name} not found")
        return m[0].strip()

    def text_field(name):
        v = field(name)
        if v == "param":
            return "param"
        m = re.fullmatch(r'(?:Cow::Borrowed\()?"((?:[^"\\]|\\.)*)"\)?', v)
        if m:
            return rust_bytes(m.group(1))
        if re.fullmatch(r"Cow::Owned\(padding\)", v):
            return "param"
        m = re.fullmatch(r'Cow::Owned\("((?:[^"\\]|\\.)*)"\.repeat\(padding\)\)', v)
        if m:
            return ("repeat", rust_bytes(m.group(1)))
        raise TranslateError(f"{what}: field {name} has unrecognised value `{v}`")

    mt = field("mtype")
    m = re.fullmatch(r"JsonFormatting::(\w+)", mt)
    if not m or m.group(1) not in MTYPES:
        raise TranslateError(f"{what}: unrecognised mtype `{mt}`")
    trunc = field("debug_truncate_strings")
    return {"padding": text_field("padding"), "mtype": MTYPES[m.group(1)], "newline": text_field("newline"),
            "kvsep": text_field("key_val_sep"), "truncate": trunc}


def need_bytes(v, what):
    if not isinstance(v, list):
        raise TranslateError(f"{what}: expected a literal, found {v!r}")
    return v


@generator("GenEscape")
def gen_escape():
    raw = src("crates/jrsonnet-evaluator/src/manifest.rs")
    text = strip_comments(raw)
    # ---- named byte constants
    consts = {}
    for name, val in re.findall(r"^const (\w+): u8 = ([^;]+);", text, re.M):
        consts[name] = byte_const(val, f"const {name}")
    # ---- the table
    tbl_src = one(r"static ESCAPE: \[u8; 256\] = \[(.*?)\];", text, "ESCAPE table", re.S)
    names = [t.strip() for t in tbl_src.split(",") if t.strip()]
    if len(names) != 256:
        raise TranslateError(f"ESCAPE table: expected 256 entries, found {len(names)}")
    table = []
    for n in names:
        if n in consts:
            table.append(consts[n])
        else:
            table.append(byte_const(n, "ESCAPE entry"))
    one(r"let escape = ESCAPE\[byte as usize\];", text, "table lookup")
    one(r"if escape == __ \{\s*continue;\s*\}", text, "no-escape test")
    if consts.get("__") != 0:
        raise TranslateError("`__` is no longer 0")
    # ---- match arms of the escaper
    fn = fn_body(text, r"pub fn escape_string_json_buf\(value: &str, buf: &mut String\) \{", "escape_string_json_buf")
    arm = one(r"match escape \{\s*((?:self::\w+\s*\|?\s*)+)=> \{\s*buf\.extend_from_slice\(&\[b'\\\\', escape\]\);", fn,
              "two-byte escape arm")
    short = []
    for n in re.findall(r"self::(\w+)", arm):
        if n not in consts:
            raise TranslateError(f"escape arm mentions unknown constant {n}")
        short.append(consts[n])
    uarm = one(r"self::(\w+) => \{\s*static HEX_DIGITS", fn, "\\u escape arm")
    if uarm not in consts:
        raise TranslateError(f"\\u arm mentions unknown constant {uarm}")
    hexd = rust_bytes(one(r'static HEX_DIGITS: \[u8; 16\] = \*b"([^"]*)";', fn, "HEX_DIGITS"))
    if len(hexd) != 16:
        raise TranslateError("HEX_DIGITS is not 16 bytes")
    useq = one(r"let bytes = &\[(.*?)\];", fn, "\\u sequence", re.S)
    parts = [p.strip() for p in useq.split(",") if p.strip()]
    if len(parts) != 6 or parts[4] != "HEX_DIGITS[(byte >> 4) as usize]" or parts[5] != "HEX_DIGITS[(byte & 0xF) as usize]":
        raise TranslateError(f"\\u sequence not recognised: {parts}")
    uprefix = [byte_const(p, "\\u prefix") for p in parts[:4]]
    one(r"_ => unreachable!\(\),", fn, "unreachable arm")
    one(r"if start < i \{\s*buf\.extend_from_slice\(&bytes\[start\.\.i\]\);\s*\}\s*start = i \+ 1;", fn, "flush")
    one(r"if start == bytes\.len\(\) \{\s*buf\.push\(b'\"'\);\s*return;\s*\}\s*buf\.extend_from_slice\(&bytes\[start\.\.\]\);"
        r"\s*buf\.push\(b'\"'\);", fn, "tail flush")
    # ---- presets
    p_min = preset(fn_body(text, r"pub fn minify\([^{]*\) -> Self \{", "minify"), "minify")
    p_ts = preset(fn_body(text, r"const fn std_to_string_helper\(\) -> Self \{", "std_to_string_helper"), "std_to_string_helper")
    p_std = preset(fn_body(text, r"pub fn std_to_json\([^{]*\) -> Self \{", "std_to_json"), "std_to_json")
    cli_body = fn_body(text, r"pub fn cli\(\s*padding: usize,[^{]*\) -> Self \{", "cli")
    p_cli = preset(cli_body, "cli")
    one(r"if padding == 0 \{\s*return Self::minify\(", cli_body, "cli(0) is minify")
    p_def = preset(fn_body(text, r"impl Default for JsonFormat<'static> \{\s*fn default\(\) -> Self \{", "default"), "default")
    for nm, p in (("minify", p_min), ("std_to_string_helper", p_ts), ("std_to_json", p_std), ("cli", p_cli),
                  ("default", p_def)):
        if p["truncate"] != "None":
            raise TranslateError(f"{nm}: debug_truncate_strings is `{p['truncate']}`, the model assumes None")
    if p_std["padding"] != "param" or p_std["newline"] != "param" or p_std["kvsep"] != "param":
        raise TranslateError("std_to_json no longer forwards its parameters")
    if not (isinstance(p_cli["padding"], tuple) and p_cli["padding"][0] == "repeat"):
        raise TranslateError("cli padding is not `unit.repeat(padding)`")
    # ToStringFormat: top-level string raw, otherwise the helper preset
    one(r"if let Some\(str\) = val\.as_str\(\) \{\s*out\.push_str\(&str\);\s*return Ok\(\(\)\);\s*\}", text,
        "ToStringFormat raw string")
    one(r"const JSON_TO_STRING: JsonFormat = JsonFormat::std_to_string_helper\(\);", text, "ToStringFormat preset")
    # ---- std.manifestJson / manifestJsonEx defaults
    sm = strip_comments(src("crates/jrsonnet-stdlib/src/manifest/mod.rs"))
    ex = fn_body(sm, r"pub fn builtin_manifest_json_ex\([^{]*\) -> Result<String> \{", "builtin_manifest_json_ex")
    dn = rust_bytes(one(r'let newline = newline\.as_deref\(\)\.unwrap_or\("((?:[^"\\]|\\.)*)"\);', ex, "default newline"))
    dk = rust_bytes(one(r'let key_val_sep = key_val_sep\.as_deref\(\)\.unwrap_or\("((?:[^"\\]|\\.)*)"\);', ex,
                        "default key_val_sep"))
    one(r"value\.manifest\(JsonFormat::std_to_json\(\s*indent,\s*newline,\s*key_val_sep,", ex, "manifestJsonEx call")
    mj = fn_body(sm, r"pub fn builtin_manifest_json\([^{]*\) -> Result<String> \{", "builtin_manifest_json")
    ind = rust_bytes(one(r'builtin_manifest_json_ex\(\s*value,\s*"((?:[^"\\]|\\.)*)"\.to_owned\(\),\s*None,\s*None,', mj,
                         "manifestJson indent"))
    mm = fn_body(sm, r"pub fn builtin_manifest_json_minified\([^{]*\) -> Result<String> \{", "manifestJsonMinified")
    one(r"value\.manifest\(JsonFormat::minify\(", mm, "manifestJsonMinified uses minify")

    def fmt(p, pad=None):
        pad = need_bytes(p["padding"], "padding") if pad is None else pad
        return (f"({p['mtype']}, {nlist(pad)}, {nlist(need_bytes(p['newline'], 'newline'))}, "
                f"{nlist(need_bytes(p['kvsep'], 'key_val_sep'))})")

    return (
        "From Coq Require Import NArith List.\nImport ListNotations.\nOpen Scope N_scope.\n"
        "(* ESCAPE[256] of crates/jrsonnet-evaluator/src/manifest.rs *)\n"
        f"Definition escape_table : list N :=\n  {nlist(table)}.\n"
        "(* escape codes written as the two bytes `\\` code *)\n"
        f"Definition esc_short : list N := {nlist(short)}.\n"
        "(* escape code written as `\\u00` hex hex *)\n"
        f"Definition esc_u : N := {consts[uarm]}.\n"
        f"Definition esc_u_prefix : list N := {nlist(uprefix)}.\n"
        f"Definition hex_digits : list N := {nlist(hexd)}.\n"
        "(* JsonFormat presets: (mtype, padding, newline, key_val_sep); mtype 0 Manifest 1 Std 2 ToString 3 Minify *)\n"
        f"Definition preset_minify : N * list N * list N * list N := {fmt(p_min)}.\n"
        f"Definition preset_to_string : N * list N * list N * list N := {fmt(p_ts)}.\n"
        f"Definition preset_default : N * list N * list N * list N := {fmt(p_def)}.\n"
        "(* JsonFormat::cli(n): n = 0 is minify, otherwise padding = unit repeated n times *)\n"
        f"Definition preset_cli_unit : list N := {nlist(p_cli['padding'][1])}.\n"
        f"Definition preset_cli : N * list N * list N * list N := {fmt(p_cli, pad=[])}.\n"
        "(* JsonFormat::std_to_json(indent, newline, key_val_sep) and the std.manifestJson[Ex] defaults *)\n"
        f"Definition preset_std_mtype : N := {p_std['mtype']}.\n"
        f"Definition std_default_newline : list N := {nlist(dn)}.\n"
        f"Definition std_default_kvsep : list N := {nlist(dk)}.\n"
        f"Definition std_manifest_json_indent : list N := {nlist(ind)}.\n"
    )
