"""GenPrec.v (C06): the binding-power / precedence tables of the three bundled parsers.

 ir     crates/jrsonnet-ir-parser/src/lib.rs      infix_binding_power, prefix_binding_power
 rowan  crates/jrsonnet-rowan-parser/src/precedence.rs   BinaryOperatorKind/UnaryOperatorKind::binding_power
 peg    crates/jrsonnet-peg-parser/src/lib.rs     the `precedence!` block of rule expr: level list
        with associativity marks, turned into a Pratt table (lbp = 2*level, rbp = lbp+1 for a
        left-associative rule `a:(@) op b:@`, rbp = lbp for a right-associative rule `a:@ op b:(@)`,
        prefix power = 2*level) -- rust-peg's precedence climbing is assumed to be that loop
        (tied by the C06 correspondence).

Self-checks (fail closed): every one of the 19 operators has exactly one row per table, the
Pratt loops still compare with `lbp < min`, the token -> operator maps are the standard ones.
"""
import re

from gen import TranslateError, generator, one, src

BINOPS = ["Or", "And", "BitOr", "BitXor", "BitAnd", "Eq", "Neq", "Lt", "Gt", "Lte", "Gte", "In",
          "Lhs", "Rhs", "Add", "Sub", "Mul", "Div", "Mod"]
UNOPS = {"Plus": "UPlus", "Minus": "UMinus", "Not": "UNot", "BitNot": "UBitNot"}
ROWAN_BIN = {"Or": "Or", "And": "And", "BitOr": "BitOr", "BitXor": "BitXor", "BitAnd": "BitAnd", "Eq": "Eq",
             "Ne": "Neq", "Lt": "Lt", "Gt": "Gt", "Le": "Lte", "Ge": "Gte", "InKw": "In", "Lhs": "Lhs",
             "Rhs": "Rhs", "Plus": "Add", "Minus": "Sub", "Mul": "Mul", "Div": "Div", "Modulo": "Mod"}
ROWAN_IGNORED = {"MetaObjectApply", "NullCoaelse", "ErrorNoOperator"}
SYMS = {"||": "Or", "&&": "And", "|": "BitOr", "^": "BitXor", "&": "BitAnd", "==": "Eq", "!=": "Neq",
        "<": "Lt", ">": "Gt", "<=": "Lte", ">=": "Gte", "in": "In", "<<": "Lhs", ">>": "Rhs", "+": "Add",
        "-": "Sub", "*": "Mul", "/": "Div", "%": "Mod"}
USYMS = {"+": "Plus", "-": "Minus", "!": "Not", "~": "BitNot"}


def fn_body(text, header_re, what):
    m = list(re.finditer(header_re, text))
    if len(m) != 1:
        raise TranslateError(f"{what}: expected exactly one definition, found {len(m)}")
    i = text.index("{", m[0].end() - 1)
    depth, j = 0, i
    while j < len(text):
        if text[j] == "{":
            depth += 1
        elif text[j] == "}":
            depth -= 1
            if depth == 0:
                return text[i + 1:j]
        j += 1
    raise TranslateError(f"{what}: unbalanced braces")


def arms(body, prefix, rhs_re, what):
    """match arms `[#[cfg(..)]] P::A | P::B => <rhs>,` -> list of (names, rhs groups); cfg-gated arms
    (experimental features, not compiled into the standard build) are dropped."""
    out = []
    arm = re.compile(r"((?:#\[cfg\([^\]]*\)\]\s*)?)((?:" + prefix + r"\w+\s*\|?\s*)+)=>\s*" + rhs_re + r"\s*,")
    pos = 0
    rest = []
    for m in arm.finditer(body):
        rest.append(body[pos:m.start()])
        pos = m.end()
        if m.group(1):
            if "feature" not in m.group(1):
                raise TranslateError(f"{what}: unrecognised attribute {m.group(1).strip()}")
            continue
        names = re.findall(prefix + r"(\w+)", m.group(2))
        out.append((names, m.groups()[2:]))
    rest.append(body[pos:])
    junk = re.sub(r"match\s+\w+\s*\{|\}|\s+", "", "".join(rest))
    if junk:
        raise TranslateError(f"{what}: unrecognised text in match: {junk[:80]!r}")
    return out


def table_rows(rows, namemap, universe, what, ignored=()):
    got = {}
    for names, vals in rows:
        for n in names:
            if n in ignored:
                continue
            if n not in namemap:
                raise TranslateError(f"{what}: unknown operator {n}")
            c = namemap[n]
            if c in got:
                raise TranslateError(f"{what}: operator {n} listed twice")
            got[c] = vals
    missing = [u for u in universe if u not in got]
    if missing:
        raise TranslateError(f"{what}: no row for {missing}")
    return got


def coq_match(name, arg, ty, rty, rows, default=None):
    s = f"Definition {name} ({arg} : {ty}) : {rty} :=\n  match {arg} with\n"
    for k, v in rows:
        s += f"  | {k} => {v}\n"
    if default is not None:
        s += f"  | _ => {default}\n"
    return s + "  end.\n"


def ir_tables():
    t = src("crates/jrsonnet-ir-parser/src/lib.rs")
    inf = arms(fn_body(t, r"fn infix_binding_power\(op: BinaryOpType\) -> \(u8, u8\) \{", "ir infix_binding_power"),
               "BinaryOpType::", r"\((\d+),\s*(\d+)\)", "ir infix_binding_power")
    infix = table_rows(inf, {b: b for b in BINOPS} | {"NullCoaelse": "NullCoaelse"}, BINOPS, "ir infix")
    pre = arms(fn_body(t, r"fn prefix_binding_power\(op: UnaryOpType\) -> u8 \{", "ir prefix_binding_power"),
               "UnaryOpType::", r"(\d+)", "ir prefix_binding_power")
    prefix = table_rows(pre, UNOPS, UNOPS.values(), "ir prefix")
    # the loop that consults them
    body = fn_body(t, r"fn expr_bp\(p: &mut Parser<'_>, min_bp: u8\) -> Result<Expr> \{", "ir expr_bp")
    one(r"if lbp < min_bp \{\s*break;", body, "ir expr_bp: `if lbp < min_bp { break`")
    one(r"let rbp = prefix_binding_power\(op\);\s*let rhs = expr_bp\(p, rbp\)\?;", body, "ir expr_bp: prefix operand")
    one(r"let \(lbp, rbp\) = infix_binding_power\(op\);", body, "ir expr_bp: table lookup")
    one(r"p\.eat_any\(\);\s*let rhs = expr_bp\(p, rbp\)\?;\s*lhs = Expr::BinaryOp", body, "ir expr_bp: right operand")
    one(r"fn expr\(p: &mut Parser<'_>\) -> Result<Expr> \{\s*expr_bp\(p, 0\)\s*\}", t, "ir expr = expr_bp(p, 0)")
    # token -> operator maps
    ub = fn_body(t, r"fn unary_op\(kind: SyntaxKind\) -> Option<UnaryOpType> \{", "ir unary_op")
    umap = dict(re.findall(r"T!\[(\S+?)\] => Some\(UnaryOpType::(\w+)\)", ub))
    if umap != USYMS:
        raise TranslateError(f"ir unary_op: token map is {umap}, expected {USYMS}")
    bb = fn_body(t, r"fn binary_op\(p: &Parser<'_>\) -> Option<BinaryOpType> \{", "ir binary_op")
    bmap = {k: v for k, v in re.findall(r"T!\[(\S+?)\] => Some\(BinaryOpType::(\w+)\)", bb) if v != "NullCoaelse"}
    if bmap != SYMS:
        raise TranslateError(f"ir binary_op: token map is {bmap}, expected {SYMS}")
    return infix, prefix


def rowan_tables():
    t = src("crates/jrsonnet-rowan-parser/src/precedence.rs")
    p = src("crates/jrsonnet-rowan-parser/src/parser.rs")
    m = re.search(r"impl BinaryOperatorKind \{(.*?)\n\}\n", t, re.S)
    m2 = re.search(r"impl UnaryOperatorKind \{(.*?)\n\}\n", t, re.S)
    if not m or not m2:
        raise TranslateError("rowan precedence.rs: impl blocks not found")
    inf = arms(fn_body(m.group(1), r"pub fn binding_power\(&self\) -> \(u8, u8\) \{", "rowan binary binding_power"),
               "Self::", r"\((\d+),\s*(\d+)\)", "rowan binary binding_power")
    infix = table_rows(inf, ROWAN_BIN, BINOPS, "rowan infix", ignored=ROWAN_IGNORED)
    pre = arms(fn_body(m2.group(1), r"pub fn binding_power\(&self\) -> \(\(\), u8\) \{", "rowan unary binding_power"),
               "Self::", r"\(\(\),\s*(\d+)\)", "rowan unary binding_power")
    prefix = {}
    for names, vals in pre:
        for n in names:
            if n not in UNOPS:
                raise TranslateError(f"rowan unary: unknown operator {n}")
            prefix[UNOPS[n]] = vals
    one(r"if left_binding_power < minimum_binding_power \{\s*break;", p, "rowan loop comparison")
    one(r"let _ = expr_binding_power\(p, right_binding_power\);", p, "rowan prefix operand")
    one(r"match expr_binding_power\(p, 0\) \{", p, "rowan expr = expr_binding_power(p, 0)")
    return infix, prefix


def peg_levels():
    t = src("crates/jrsonnet-peg-parser/src/lib.rs")
    m = re.search(r"rule expr\(s: &ParserSettings\) -> Expr\s*=\s*precedence!\s*\{(.*?)\n\t\t\t\}\n", t, re.S)
    if not m:
        raise TranslateError("peg: precedence! block of rule expr not found")
    levels = re.split(r"\n\s*--\s*\n", m.group(1))
    infix, prefix = {}, {}
    inf_re = re.compile(r"^a:(\(@\)|@) _ binop\(<(.+?)>\) _ b:(\(@\)|@) \{expr_bin!\(a (\w+) b\)\}$")
    pre_re = re.compile(r"^unaryop\(<\"(.)\">\) _ b:@ \{expr_un!\((\w+) b\)\}$")
    seen_postfix = False
    for li, lv in enumerate(levels, 1):
        lines = [x.strip() for x in lv.strip().split("\n") if x.strip()]
        kinds = set()
        i = 0
        while i < len(lines):
            ln = lines[i]
            if "ensure_null_coaelse()" in ln and "binop" in ln:
                # experimental `??` rule (3 lines), fails unless the feature is on
                i += 1
                while i < len(lines) and lines[i] != "}":
                    i += 1
                i += 1
                continue
            mi, mp = inf_re.match(ln), pre_re.match(ln)
            if mi:
                la, tokexpr, ra, name = mi.groups()
                tok = re.fullmatch(r"\"(.+)\"|keyword\(\"(\w+)\"\)", tokexpr)
                if not tok:
                    raise TranslateError(f"peg: operator token {tokexpr!r} not recognised")
                sym = tok.group(1) or tok.group(2)
                if SYMS.get(sym) != name:
                    raise TranslateError(f"peg: token {sym!r} builds {name}, expected {SYMS.get(sym)}")
                if (la, ra) == ("(@)", "@"):
                    rassoc = False
                elif (la, ra) == ("@", "(@)"):
                    rassoc = True
                else:
                    raise TranslateError(f"peg: associativity marks {la} {ra} for {name}")
                if name in infix:
                    raise TranslateError(f"peg: {name} listed twice")
                infix[name] = (li, rassoc)
                kinds.add("infix")
            elif mp:
                sym, name = mp.groups()
                if USYMS.get(sym) != name:
                    raise TranslateError(f"peg: prefix token {sym!r} builds {name}")
                prefix[UNOPS[name]] = li
                kinds.add("prefix")
            else:
                kinds.add("other")
                if "slice_desc(s)" in ln:
                    seen_postfix = True
            i += 1
        if "other" in kinds and ("infix" in kinds or "prefix" in kinds):
            raise TranslateError(f"peg: precedence level {li} mixes operators with unrecognised rules")
        if ("infix" in kinds or "prefix" in kinds) and seen_postfix:
            raise TranslateError("peg: an operator level sits above the postfix level")
    missing = [b for b in BINOPS if b not in infix]
    if missing:
        raise TranslateError(f"peg: no precedence rule for {missing}")
    if not seen_postfix:
        raise TranslateError("peg: postfix level not found")
    return infix, prefix


@generator("GenPrec")
def gen_prec():
    ir_in, ir_pre = ir_tables()
    ro_in, ro_pre = rowan_tables()
    pg_in, pg_pre = peg_levels()
    out = ["From Coq Require Import NArith.\nFrom JrV Require Import Common.PrecOps.\nLocal Open Scope N_scope.\n"]
    for tag, inf, pre in (("ir", ir_in, ir_pre), ("rowan", ro_in, ro_pre)):
        out.append(coq_match(f"{tag}_infix", "b", "binop", "N * N",
                             [(b, f"({inf[b][0]}, {inf[b][1]})") for b in BINOPS]))
        out.append(coq_match(f"{tag}_prefix", "u", "unop", "option N",
                             [(u, f"Some {pre[u][0]}" if u in pre else "None") for u in UNOPS.values()]))
        out.append(f"Definition tbl_{tag} : table :=\n  Table (fun b => fst ({tag}_infix b)) "
                   f"(fun b => snd ({tag}_infix b)) {tag}_prefix.\n")
    out.append(coq_match("peg_level", "b", "binop", "N", [(b, str(pg_in[b][0])) for b in BINOPS]))
    out.append(coq_match("peg_rassoc", "b", "binop", "bool",
                         [(b, "true" if pg_in[b][1] else "false") for b in BINOPS]))
    out.append(coq_match("peg_prefix_level", "u", "unop", "option N",
                         [(u, f"Some {pg_pre[u]}" if u in pg_pre else "None") for u in UNOPS.values()]))
    out.append("Definition tbl_peg : table :=\n  Table (fun b => 2 * peg_level b)\n"
               "        (fun b => if peg_rassoc b then 2 * peg_level b else 2 * peg_level b + 1)\n"
               "        (fun u => match peg_prefix_level u with Some l => Some (2 * l) | None => None end).\n")
    return "\n".join(out)
