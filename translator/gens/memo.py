"""GenMemo.v: the four copies of the call-by-need memo protocol, read from the source text and
emitted as Gallina step functions (C03).

Sites
  thunk    MemoizedClosureThunk::get            crates/jrsonnet-evaluator/src/val.rs
           (what Thunk::evaluate calls; Thunk::evaluate itself must be `self.0.get()`)
  exprarr  ExprArray::get / get_lazy            crates/jrsonnet-evaluator/src/arr/spec.rs
  mapped   MappedArray::get / get_lazy          crates/jrsonnet-evaluator/src/arr/spec.rs
  obj      ObjValue::get_idx + enum CacheValue  crates/jrsonnet-evaluator/src/obj/mod.rs

For every site the translator emits
  gen_<site>_enter : gstate -> gentry * gstate
      what a call answers for each cell state on entry (stored value / stored error /
      InfiniteRecursionDetected / proceed to run the closure) and the state the cell is in when
      the closure starts (the `replace(.., Pending)` / `insert(Pending)` write, if there is one);
  gen_<site>_leave : gstate -> bool -> gret * gstate
      given the cell's state when the closure finishes and whether it returned Ok, what the
      call returns and the state written (if nothing is written the state is left as it is);
  gen_<site>_gate  : bool     a fallible step (`self.run_assertions()?`) runs before the cell is
      inspected; when it fails the call returns its error and the cell is not touched;
  gen_<site>_lazy  : gstate -> glazy     (array sites) which states `get_lazy` answers with an
      already finished thunk (Thunk::evaluated / Thunk::errored) and which with a deferred thunk
      whose `get` is a call of the site's `get`.

The translated subset of Rust is exactly the statement shapes listed in `Site.parse` /
`parse_obj` / `parse_lazy` below; every statement of each function body must be consumed by one
of them, the closure expression must be the known one, the cell expression the known one, the
enum must have exactly the known constructors.  Anything else raises TranslateError (fail closed):
a source edit is never silently ignored.  Local variable names are free (they are captured and
checked for consistency), so renaming a local is harmless.
"""
import re

from gen import TranslateError, generator, src

STATES = ("GWaiting", "GPending", "GComputed", "GErrored")
ID = r"[A-Za-z_]\w*"


# ---------------------------------------------------------------- text helpers
def strip_comments(text):
    text = re.sub(r"/\*.*?\*/", " ", text, flags=re.S)
    return re.sub(r"//[^\n]*", "", text)


def squeeze(text):
    """remove all white space except one blank between two identifier characters"""
    text = re.sub(r"\s+", " ", text.strip())
    return re.sub(r"(?<![A-Za-z0-9_]) | (?![A-Za-z0-9_])", "", text)


def block_after(text, start, what):
    """text[start] == '{' -> (inside, index after the closing brace)"""
    if start >= len(text) or text[start] != "{":
        raise TranslateError(f"{what}: `{{` expected")
    depth = 0
    for j in range(start, len(text)):
        c = text[j]
        if c == "{":
            depth += 1
        elif c == "}":
            depth -= 1
            if depth == 0:
                return text[start + 1:j], j + 1
    raise TranslateError(f"{what}: unbalanced braces")


def find_body(text, header_re, what, within=None):
    """body of the unique item whose header matches header_re (header_re ends with the opening `{`)"""
    scope = text if within is None else within
    ms = list(re.finditer(header_re, scope))
    if len(ms) != 1:
        raise TranslateError(f"{what}: expected exactly one match of /{header_re}/, found {len(ms)}")
    body, _ = block_after(scope, ms[0].end() - 1, what)
    return body


def split_top(s, sep=","):
    """split at top-level separators (outside (), [], {})"""
    out, depth, cur = [], 0, []
    for c in s:
        if c in "([{":
            depth += 1
        elif c in ")]}":
            depth -= 1
        if c == sep and depth == 0:
            out.append("".join(cur))
            cur = []
        else:
            cur.append(c)
    if cur:
        out.append("".join(cur))
    return [x for x in out if x != ""]


def split_arms(s, what):
    """match arms `PAT=>BODY` separated by commas; a `{..}` body may omit the comma"""
    arms, i = [], 0
    while i < len(s):
        j = s.find("=>", i)
        if j < 0:
            raise TranslateError(f"{what}: `=>` expected in `{s[i:i + 50]}`")
        pat = s[i:j]
        k = j + 2
        if k < len(s) and s[k] == "{":
            body, k2 = block_after(s, k, what)
            body = "{" + body + "}"
            if k2 < len(s) and s[k2] == ",":
                k2 += 1
        else:
            depth, k2 = 0, k
            while k2 < len(s):
                c = s[k2]
                if c in "([{":
                    depth += 1
                elif c in ")]}":
                    depth -= 1
                elif c == "," and depth == 0:
                    break
                k2 += 1
            body = s[k:k2]
            if k2 < len(s):
                k2 += 1
        arms.append((pat, body))
        i = k2
    return arms


# ---------------------------------------------------------------- the protocol being collected
class Proto:
    def __init__(self, name):
        self.name = name
        self.gate = False
        self.entry = {}          # state -> gentry
        self.before = {}         # state -> state written before the closure runs (only for EProceed states)
        self.after = {}          # True/False -> (gret, state or None)
        self.lazy = None         # state -> glazy
        self.notes = []

    def set_entry(self, st, ans, what):
        if st in self.entry:
            raise TranslateError(f"{what}: state {st} matched twice")
        self.entry[st] = ans

    def check_complete(self, what):
        for s in STATES:
            if s not in self.entry:
                raise TranslateError(f"{what}: no arm for cell state {s}")
        for ok in (True, False):
            if ok not in self.after:
                raise TranslateError(f"{what}: no result for closure outcome ok={ok}")

    def emit(self):
        n = self.name
        out = []
        for note in self.notes:
            out.append(f"(* {n}: {note} *)")
        arms = " ".join(f"| {s} => ({self.entry[s]}, {self.before.get(s, s) if self.entry[s] == 'EProceed' else s})"
                        for s in STATES)
        out.append(f"Definition gen_{n}_enter (s : gstate) : gentry * gstate :=\n  match s with {arms} end.")

        def leave(ok):
            r, st = self.after[ok]
            return f"({r}, {st if st else 's'})"
        out.append(f"Definition gen_{n}_leave (s : gstate) (ok : bool) : gret * gstate :=\n"
                   f"  if ok then {leave(True)} else {leave(False)}.")
        out.append(f"Definition gen_{n}_gate : bool := {'true' if self.gate else 'false'}.")
        if self.lazy is not None:
            arms = " ".join(f"| {s} => {self.lazy[s]}" for s in STATES)
            out.append(f"Definition gen_{n}_lazy (s : gstate) : glazy :=\n  match s with {arms} end.")
        return "\n".join(out) + "\n"


# ---------------------------------------------------------------- sites with an explicit 4-constructor enum
class Site:
    """thunk / exprarr / mapped: `enum E { Computed(T), Errored(Error), Waiting.., Pending }`"""

    def __init__(self, name, enum, cell_read, cell_write, closures, wrap_some, prelude, file):
        self.name, self.enum, self.file = name, enum, file
        self.cell_read = cell_read        # squeezed text of the scrutinee of the entry match
        self.cell_write = cell_write      # squeezed text of the cell as an lvalue / `&mut` target
        self.closures = closures          # accepted forms of "run the closure": list of (regex of the `let` prefix statements, regex of the scrutinee)
        self.wrap_some = wrap_some        # values are returned as Ok(Some(v)) (arrays) or Ok(v) (thunk)
        self.prelude = prelude            # list of (regex, description) consumed in order before the entry match

    def w(self, msg):
        return f"{self.file}: {self.name}: {msg}"

    def check_enum(self, text):
        body = squeeze(find_body(text, r"\benum\s+" + self.enum + r"\b[^{;]*\{", self.w("enum " + self.enum)))
        body = re.sub(r"#\[[^\]]*\]", "", body)
        ctors = {}
        for item in split_top(body):
            m = re.fullmatch(rf"({ID})(\(.*\)|\{{.*\}})?", item)
            if not m:
                raise TranslateError(self.w(f"enum {self.enum}: cannot read constructor `{item}`"))
            ctors[m.group(1)] = m.group(2) or ""
        if set(ctors) != {"Computed", "Errored", "Waiting", "Pending"}:
            raise TranslateError(self.w(f"enum {self.enum}: constructors {sorted(ctors)} are not the four cell states"))
        if not re.fullmatch(r"\((T|Val)\)", ctors["Computed"]):
            raise TranslateError(self.w(f"Computed carries `{ctors['Computed']}`, expected the value"))
        if ctors["Errored"] != "(Error)":
            raise TranslateError(self.w(f"Errored carries `{ctors['Errored']}`, expected (Error)"))
        if ctors["Pending"] != "":
            raise TranslateError(self.w("Pending carries data"))
        self.waiting_payload = ctors["Waiting"]

    STATE_OF = {"Computed": "GComputed", "Errored": "GErrored", "Waiting": "GWaiting", "Pending": "GPending"}

    def pattern(self, pat):
        """`E::Computed(v)` -> (state, bound variable or None)"""
        m = re.fullmatch(rf"{self.enum}::({ID})(?:\(({ID}|_)\)|\{{\.\.\}}|\{{[\w,]*\}})?", pat)
        if not m or m.group(1) not in self.STATE_OF:
            raise TranslateError(self.w(f"unknown pattern `{pat}`"))
        return self.STATE_OF[m.group(1)], m.group(2)

    def entry_action(self, body, bound, states):
        """the body of one arm of the entry match -> gentry"""
        val = r"Ok\(Some\((" + ID + r")\.clone\(\)\)\)" if self.wrap_some else r"Ok\((" + ID + r")\.clone\(\)\)"
        m = re.fullmatch(r"return " + val + r";?|\{return " + val + r";\}", body)
        if m:
            v = m.group(1) or m.group(2)
            if states != ["GComputed"] or v != bound:
                raise TranslateError(self.w(f"`{body}` returns a value that is not the one stored in Computed"))
            return "EValue"
        m = re.fullmatch(rf"return Err\(({ID})\.clone\(\)\);?|\{{return Err\(({ID})\.clone\(\)\);\}}", body)
        if m:
            v = m.group(1) or m.group(2)
            if states != ["GErrored"] or v != bound:
                raise TranslateError(self.w(f"`{body}` returns an error that is not the one stored in Errored"))
            return "EStoredErr"
        if re.fullmatch(r"return Err\(InfiniteRecursionDetected\.into\(\)\);?|\{return Err\(InfiniteRecursionDetected"
                        r"\.into\(\)\);\}|\{bail!\(InfiniteRecursionDetected\);?\}|bail!\(InfiniteRecursionDetected\)",
                        body):
            return "EInfRec"
        if body in ("()", "{}"):
            return "EProceed"
        raise TranslateError(self.w(f"unrecognised arm body `{body[:80]}`"))

    def entry_match(self, s, p):
        m = re.match(r"match" + re.escape(self.cell_read) + r"\{", s)
        if not m:
            raise TranslateError(self.w(f"entry `match {self.cell_read} {{..}}` expected at `{s[:70]}`"))
        inner, end = block_after(s, m.end() - 1, self.w("entry match"))
        for pat, body in split_arms(inner, self.w("entry match")):
            pats = [self.pattern(x) for x in pat.split("|")]
            states = [st for st, _ in pats]
            bound = pats[0][1] if len(pats) == 1 else None
            ans = self.entry_action(body, bound, states)
            for st in states:
                p.set_entry(st, ans, self.w("entry match"))
        rest = s[end:]
        return rest[1:] if rest.startswith(";") else rest

    def parse(self, body, p):
        s = squeeze(strip_comments(body))
        for rx, desc in self.prelude:
            m = re.match(rx, s)
            if not m:
                raise TranslateError(self.w(f"{desc} expected at `{s[:70]}`"))
            s = s[m.end():]
        s = self.entry_match(s, p)
        # the write before the closure runs (optional):
        #   let E::Waiting.. = replace(&mut CELL, E::STATE) else { unreachable!() };
        cw = re.escape(self.cell_write)
        m = re.match(rf"let {self.enum}::Waiting(?:\{{[\w,.]*\}})?=replace\(&mut ?{cw},{self.enum}::({ID}),?\)"
                     r"else\{unreachable!\(\);?\};", s)
        if m:
            if m.group(1) not in ("Pending", "Waiting"):
                raise TranslateError(self.w(f"replace(.., {m.group(1)}) before the closure runs"))
            st = self.STATE_OF[m.group(1)]
            for s0 in STATES:
                if p.entry.get(s0) == "EProceed":
                    p.before[s0] = st
            s = s[m.end():]
        elif self.waiting_payload:
            # the closure and its environment live in the Waiting payload: without the replace there is
            # nothing to run; any other way of obtaining them is not understood
            raise TranslateError(self.w(f"`let {self.enum}::Waiting{{..}} = replace(&mut cell, {self.enum}::Pending) "
                                        f"else {{ unreachable!() }};` expected at `{s[:70]}`"))
        # run the closure:  [let VAL = CLOSURE;]  let NV = match CLOSURE|VAL { Ok(v) => v, Err(e) => { [CELL = E::Errored(e.clone());] return Err(e); } };
        scrut = None
        for pre_rx, scrut_rx in self.closures:
            m = re.match(pre_rx, s)
            if m:
                tmp = m.groupdict().get("tmp")
                s2 = s[m.end():]
                rx = scrut_rx if tmp is None else re.escape(tmp)
                m2 = re.match(rf"let ({ID})=match {rx}\{{|let ({ID})=match\({rx}\)\{{", s2)
                if m2:
                    scrut = (m2.group(1) or m2.group(2), s2, m2.end() - 1)
                    break
        if scrut is None:
            raise TranslateError(self.w(f"`let v = match <the site's closure call> {{..}}` expected at `{s[:90]}`"))
        nv, s, at = scrut
        inner, end = block_after(s, at, self.w("closure result match"))
        arms = split_arms(inner, self.w("closure result match"))
        if len(arms) != 2:
            raise TranslateError(self.w("closure result match must have exactly the arms Ok and Err"))
        seen = set()
        err_state = None
        for pat, body in arms:
            m = re.fullmatch(rf"Ok\(({ID})\)", pat)
            if m:
                if body != m.group(1):
                    raise TranslateError(self.w(f"Ok arm must yield its payload, found `{body}`"))
                seen.add("ok")
                continue
            m = re.fullmatch(rf"Err\(({ID})\)", pat)
            if m:
                e = m.group(1)
                mb = re.fullmatch(rf"\{{(?:{cw}={self.enum}::(?:Errored\({e}\.clone\(\)\)|({ID}));)?return Err\({e}\);?\}}", body)
                if not mb:
                    raise TranslateError(self.w(f"unrecognised Err arm `{body[:90]}`"))
                if f"{self.cell_write}=" in body:
                    other = mb.group(1)
                    if other is None:
                        err_state = "GErrored"
                    elif other in ("Waiting", "Pending") and not (other == "Waiting" and self.waiting_payload):
                        err_state = self.STATE_OF[other]
                    else:
                        raise TranslateError(self.w(f"Err arm stores `{other}`"))
                seen.add("err")
                continue
            raise TranslateError(self.w(f"unrecognised arm `{pat}` of the closure result match"))
        if seen != {"ok", "err"}:
            raise TranslateError(self.w("closure result match must have exactly the arms Ok and Err"))
        p.after[False] = ("RErr", err_state)
        s = s[end:]
        if not s.startswith(";"):
            raise TranslateError(self.w("`;` expected after the closure result match"))
        s = s[1:]
        # the write after Ok (optional):  CELL = E::Computed(NV.clone());
        ok_state = None
        m = re.match(rf"{cw}={self.enum}::(?:Computed\({nv}\.clone\(\)\)|({ID}));", s)
        if m:
            other = m.group(1)
            if other is None:
                ok_state = "GComputed"
            elif other in ("Waiting", "Pending") and not (other == "Waiting" and self.waiting_payload):
                ok_state = self.STATE_OF[other]
            else:
                raise TranslateError(self.w(f"after Ok the cell is set to `{other}`"))
            s = s[m.end():]
        p.after[True] = ("ROk", ok_state)
        final = f"Ok(Some({nv}))" if self.wrap_some else f"Ok({nv})"
        if s != final:
            raise TranslateError(self.w(f"final expression `{final}` expected, found `{s[:90]}`"))
        p.check_complete(self.w("get"))

    def parse_lazy(self, body, p):
        """get_lazy: local thunk type whose get() calls the site's get; bounds check; short-circuit match;
        deferred thunk"""
        s = squeeze(strip_comments(body))
        m = re.match(rf"#\[derive\(Trace\)\]struct ({ID})\{{({ID}):{self.name_struct},index:usize,?\}}", s)
        if not m:
            raise TranslateError(self.w(f"get_lazy: local thunk struct expected at `{s[:80]}`"))
        tname, field = m.group(1), m.group(2)
        s = s[m.end():]
        m = re.match(rf"impl ThunkValue for {tname}\{{type Output=Val;fn get\(&self\)->Result<Self::Output>\{{"
                     rf"self\.{field}\.get\(self\.index\)\.transpose\(\)\.expect\(\"[^\"]*\"\)\}}\}}", s)
        if not m:
            raise TranslateError(self.w(f"get_lazy: the deferred thunk's get() must be "
                                        f"`self.{field}.get(self.index).transpose().expect(..)`; found `{s[:120]}`"))
        s = s[m.end():]
        m = re.match(r"if index>=self\.len\(\)\{return None;\}", s)
        if not m:
            raise TranslateError(self.w(f"get_lazy: bounds check expected at `{s[:70]}`"))
        s = s[m.end():]
        m = re.match(r"match" + re.escape(self.cell_read) + r"\{", s)
        if not m:
            raise TranslateError(self.w(f"get_lazy: `match {self.cell_read}` expected at `{s[:70]}`"))
        inner, end = block_after(s, m.end() - 1, self.w("get_lazy match"))
        lazy = {}
        for pat, body_ in split_arms(inner, self.w("get_lazy match")):
            pats = [self.pattern(x) for x in pat.split("|")]
            states = [st for st, _ in pats]
            bound = pats[0][1] if len(pats) == 1 else None
            mv = re.fullmatch(rf"return Some\(Thunk::evaluated\(({ID})\.clone\(\)\)\);?", body_)
            me = re.fullmatch(rf"return Some\(Thunk::errored\(({ID})\.clone\(\)\)\);?", body_)
            if mv:
                if states != ["GComputed"] or mv.group(1) != bound:
                    raise TranslateError(self.w(f"get_lazy: `{body_}` is not the value stored in Computed"))
                ans = "LEvaluated"
            elif me:
                if states != ["GErrored"] or me.group(1) != bound:
                    raise TranslateError(self.w(f"get_lazy: `{body_}` is not the error stored in Errored"))
                ans = "LErrored"
            elif body_ in ("{}", "()"):
                ans = "LDeferred"
            else:
                raise TranslateError(self.w(f"get_lazy: unrecognised arm body `{body_[:80]}`"))
            for st in states:
                if st in lazy:
                    raise TranslateError(self.w(f"get_lazy: state {st} matched twice"))
                lazy[st] = ans
        for st in STATES:
            if st not in lazy:
                raise TranslateError(self.w(f"get_lazy: no arm for {st}"))
        s = s[end:]
        if s.startswith(";"):
            s = s[1:]
        if not re.fullmatch(rf"Some\(Thunk::new\({tname}\{{{field}:self\.clone\(\),index,?\}}\)\)", s):
            raise TranslateError(self.w(f"get_lazy: `Some(Thunk::new({tname} {{ {field}: self.clone(), index }}))` "
                                        f"expected, found `{s[:90]}`"))
        p.lazy = lazy


# ---------------------------------------------------------------- the object field cache
def parse_obj(text, p):
    f = "obj/mod.rs"

    def w(msg):
        return f"{f}: obj: {msg}"
    body = squeeze(re.sub(r"#\[[^\]]*\]", "", find_body(text, r"\benum\s+CacheValue\b[^{;]*\{", w("enum CacheValue"))))
    if sorted(split_top(body)) != ["Cached(Result<Option<Val>>)", "Pending"]:
        raise TranslateError(w(f"enum CacheValue is `{body}`, expected Cached(Result<Option<Val>>), Pending"))
    if not re.search(r"value_cache\s*:\s*RefCell\s*<\s*FxHashMap\s*<\s*\(\s*IStr\s*,\s*CoreIdx\s*\)\s*,\s*CacheValue\s*>\s*>",
                     text):
        raise TranslateError(w("value_cache is not RefCell<FxHashMap<(IStr, CoreIdx), CacheValue>>"))
    p.notes.append("cell = value_cache[(name, layer)]: absent = GWaiting, Pending = GPending, "
                   "Cached(Ok _) = GComputed (Ok(None) = field not found is a stored answer too), Cached(Err _) = GErrored")
    s = squeeze(strip_comments(find_body(text, r"\bfn get_idx\s*\(\s*&self\s*,\s*key\s*:\s*IStr\s*,\s*core\s*:\s*CoreIdx\s*\)"
                                               r"\s*->\s*Result\s*<\s*Option\s*<\s*Val\s*>\s*>\s*\{", w("fn get_idx"))))
    # the gate and the key binding are independent of each other: either order
    ck = None
    for _ in range(2):
        m = re.match(r"self\.run_assertions\(\)\?;", s)
        if m and not p.gate:
            p.gate = True
            s = s[m.end():]
            continue
        m = re.match(rf"let ({ID})=\(key\.clone\(\),core\);", s)
        if m and ck is None:
            ck = m.group(1)
            s = s[m.end():]
    if ck is None:
        raise TranslateError(w(f"`let cache_key = (key.clone(), core);` expected at `{s[:70]}`"))
    if not s.startswith("{"):
        raise TranslateError(w(f"cache lookup block expected at `{s[:70]}`"))
    blk, end = block_after(s, 0, w("lookup block"))
    rest = s[end:]
    m = re.match(rf"let mut ({ID})=self\.0\.value_cache\.borrow_mut\(\);match \1\.entry\({ck}\.clone\(\)\)\{{", blk)
    if not m:
        raise TranslateError(w(f"`let mut cache = self.0.value_cache.borrow_mut(); match cache.entry(key.clone()) {{` "
                               f"expected at `{blk[:90]}`"))
    inner, e2 = block_after(blk, m.end() - 1, w("entry match"))
    if blk[e2:] not in ("", ";"):
        raise TranslateError(w(f"statements after the entry match: `{blk[e2:][:80]}`"))

    def action(body_, stored):
        if stored and re.fullmatch(rf"return ({ID})\.clone\(\);?|\{{return ({ID})\.clone\(\);\}}", body_):
            mm = re.fullmatch(rf"return ({ID})\.clone\(\);?|\{{return ({ID})\.clone\(\);\}}", body_)
            if (mm.group(1) or mm.group(2)) != stored:
                raise TranslateError(w(f"`{body_}` does not return the stored result"))
            return "stored"
        if re.fullmatch(r"\{bail!\(InfiniteRecursionDetected\);?\}|bail!\(InfiniteRecursionDetected\)|"
                        r"return Err\(InfiniteRecursionDetected\.into\(\)\);?|\{return Err\(InfiniteRecursionDetected\.into\(\)\);\}",
                        body_):
            return "EInfRec"
        if body_ in ("{}", "()"):
            return "EProceed"
        raise TranslateError(w(f"unrecognised arm body `{body_[:80]}`"))

    seen_occ = seen_vac = False
    for pat, body_ in split_arms(inner, w("entry match")):
        mo = re.fullmatch(rf"Entry::Occupied\(({ID})\)", pat)
        mv = re.fullmatch(rf"Entry::Vacant\(({ID})\)", pat)
        if mo and not seen_occ:
            seen_occ = True
            mm = re.fullmatch(rf"match {mo.group(1)}\.get\(\)\{{(.*)\}}", body_)
            if not mm:
                raise TranslateError(w(f"`match v.get() {{..}}` expected in the Occupied arm, found `{body_[:80]}`"))
            for pat2, body2 in split_arms(mm.group(1), w("occupied match")):
                for alt in pat2.split("|"):
                    mc = re.fullmatch(rf"CacheValue::Cached\(({ID}|_)\)", alt)
                    if mc:
                        a = action(body2, mc.group(1) if len(pat2.split("|")) == 1 else None)
                        if a == "stored":
                            p.set_entry("GComputed", "EValue", w("entry"))
                            p.set_entry("GErrored", "EStoredErr", w("entry"))
                        else:
                            p.set_entry("GComputed", a, w("entry"))
                            p.set_entry("GErrored", a, w("entry"))
                    elif alt == "CacheValue::Pending":
                        a = action(body2, None)
                        p.set_entry("GPending", a, w("entry"))
                    else:
                        raise TranslateError(w(f"unknown pattern `{alt}`"))
        elif mv and not seen_vac:
            seen_vac = True
            v = mv.group(1)
            mi = re.fullmatch(rf"\{{{v}\.insert\(CacheValue::Pending\);?\}}", body_)
            if mi:
                p.set_entry("GWaiting", "EProceed", w("entry"))
                p.before["GWaiting"] = "GPending"
            else:
                a = action(body_, None)
                p.set_entry("GWaiting", a, w("entry"))
        else:
            raise TranslateError(w(f"unknown or repeated arm `{pat}`"))
    # a state that proceeds without being the vacant one keeps its state (nothing is written)
    # run the closure
    m = re.match(rf"let ({ID})=self\.get_idx_uncached\(key,core\);", rest)
    if not m:
        raise TranslateError(w(f"`let result = self.get_idx_uncached(key, core);` expected at `{rest[:80]}`"))
    res = m.group(1)
    rest = rest[m.end():]
    stored = None
    if rest.startswith("{"):
        blk, end = block_after(rest, 0, w("store block"))
        m = re.fullmatch(rf"let mut ({ID})=self\.0\.value_cache\.borrow_mut\(\);\1\.insert\({ck},CacheValue::"
                         rf"(?:Cached\({res}\.clone\(\)\)|(Pending))\);?", blk)
        if not m:
            raise TranslateError(w(f"`cache.insert(cache_key, CacheValue::Cached(result.clone()));` expected, found `{blk[:100]}`"))
        stored = "pending" if m.group(2) else "result"
        rest = rest[end:]
    if rest != res:
        raise TranslateError(w(f"final expression `{res}` expected, found `{rest[:80]}`"))
    if stored == "result":
        p.after[True] = ("ROk", "GComputed")
        p.after[False] = ("RErr", "GErrored")
    elif stored == "pending":
        p.after[True] = ("ROk", "GPending")
        p.after[False] = ("RErr", "GPending")
    else:
        p.after[True] = ("ROk", None)
        p.after[False] = ("RErr", None)
    p.check_complete(w("get_idx"))
    # the public entry points must go through get_idx
    g = squeeze(strip_comments(find_body(text, r"\bpub fn get\s*\(\s*&self\s*,\s*key\s*:\s*IStr\s*\)\s*->\s*Result\s*<\s*"
                                               r"Option\s*<\s*Val\s*>\s*>\s*\{", w("fn get"))))
    if g != "self.get_idx(key,CoreIdx{idx:self.0.cores.len(),},)":
        raise TranslateError(w(f"ObjValue::get is not `self.get_idx(key, CoreIdx {{ idx: self.0.cores.len() }})`: `{g[:90]}`"))


# ---------------------------------------------------------------- driver
VOCAB = """\
(* vocabulary (fixed text) *)
Inductive gstate := GWaiting | GPending | GComputed | GErrored.
(* answer of a call for the cell state found on entry *)
Inductive gentry := EValue      (* Ok(stored value), closure not run *)
                  | EStoredErr  (* Err(stored error), closure not run *)
                  | EInfRec     (* Err(InfiniteRecursionDetected), closure not run *)
                  | EProceed.   (* run the closure *)
(* what the call returns once the closure has finished *)
Inductive gret := ROk (* Ok(the value just computed) *) | RErr (* Err(the error just raised) *).
(* get_lazy: an already finished thunk, or a deferred thunk whose get() is the site's get() *)
Inductive glazy := LEvaluated | LErrored | LDeferred.
"""


@generator("GenMemo")
def gen_memo():
    out = [VOCAB]
    # --- thunk
    val = src("crates/jrsonnet-evaluator/src/val.rs")
    thunk = Site("thunk", "MemoizedClusureThunkInner",
                 cell_read="&*self.0.borrow()", cell_write="*self.0.borrow_mut()",
                 closures=[(r"", r"closure\(env\)")], wrap_some=False, prelude=[], file="val.rs")
    thunk.check_enum(val)
    impl = find_body(val, r"impl\s*<[^{]*>\s*ThunkValue\s+for\s+MemoizedClosureThunk\s*<[^{]*\{", "val.rs: impl ThunkValue for MemoizedClosureThunk")
    p = Proto("thunk")
    thunk.parse(find_body(impl, r"\bfn get\s*\(\s*&self\s*\)\s*->\s*Result\s*<\s*Self::Output\s*>\s*\{", "val.rs: MemoizedClosureThunk::get",
                          within=impl), p)
    ev = squeeze(strip_comments(find_body(val, r"\bpub fn evaluate\s*\(\s*&self\s*\)\s*->\s*Result\s*<\s*T\s*>\s*\{", "val.rs: Thunk::evaluate")))
    if ev != "self.0.get()":
        raise TranslateError(f"val.rs: Thunk::evaluate is `{ev[:80]}`, expected `self.0.get()`")
    p.notes.append("MemoizedClosureThunk::get (Thunk::evaluate is `self.0.get()`); cell = the RefCell of the thunk")
    out.append(p.emit())
    # --- arrays
    spec = src("crates/jrsonnet-evaluator/src/arr/spec.rs")
    for name, struct, closures in (
        ("exprarr", "ExprArray", [(r"", r"evaluate\(self\.ctx\.clone\(\),&self\.src\[index\]\)")]),
        ("mapped", "MappedArray",
         [(rf"let (?P<tmp>{ID})=self\.inner\.get\(index\)\.transpose\(\)\.expect\(\"[^\"]*\"\)"
           rf"\.and_then\(\|({ID})\|self\.evaluate\(index,\2\)\);", r""),
          # since repo 9dc676b: the element is handed to the callback as the inner array's lazy handle
          (rf"let (?P<tmp>{ID})=self\.evaluate\(index,self\.inner\.get_lazy\(index\)\.expect\(\"[^\"]*\"\)\);", r"")]),
    ):
        site = Site(name, "ArrayThunk", cell_read="&self.cached.borrow()[index]",
                    cell_write="self.cached.borrow_mut()[index]", closures=closures, wrap_some=True,
                    prelude=[(r"if index>=self\.len\(\)\{return Ok\(None\);\}", "bounds check `if index >= self.len() { return Ok(None); }`")],
                    file="arr/spec.rs")
        site.name_struct = struct
        site.check_enum(spec)
        impl = find_body(spec, r"impl\s+ArrayLike\s+for\s+" + struct + r"\s*\{", f"arr/spec.rs: impl ArrayLike for {struct}")
        p = Proto(name)
        site.parse(find_body(impl, r"\bfn get\s*\(\s*&self\s*,\s*index\s*:\s*usize\s*\)\s*->\s*Result\s*<\s*Option\s*<\s*Val\s*>\s*>\s*\{",
                             f"arr/spec.rs: {struct}::get", within=impl), p)
        site.parse_lazy(find_body(impl, r"\bfn get_lazy\s*\(\s*&self\s*,\s*index\s*:\s*usize\s*\)\s*->\s*Option\s*<\s*Thunk\s*<\s*Val\s*>\s*>\s*\{",
                                  f"arr/spec.rs: {struct}::get_lazy", within=impl), p)
        ln = squeeze(strip_comments(find_body(impl, r"\bfn len\s*\(\s*&self\s*\)\s*->\s*usize\s*\{", f"arr/spec.rs: {struct}::len", within=impl)))
        if ln != "self.cached.borrow().len()":
            raise TranslateError(f"arr/spec.rs: {struct}::len is `{ln}`, expected the length of the cache vector")
        p.notes.append(f"{struct}::get / get_lazy; cell = cached[index] (index < len checked first, out of range answers None)")
        out.append(p.emit())
    # --- object field cache
    obj = src("crates/jrsonnet-evaluator/src/obj/mod.rs")
    p = Proto("obj")
    parse_obj(obj, p)
    out.append(p.emit())
    return "\n".join(out)
