"""GenArr.v (C08): the index arithmetic of the array views, translated statement by statement from
crates/jrsonnet-evaluator/src/arr/spec.rs and arr/mod.rs into Gallina functions over N / Z.

What is translated (each from the text of the function, parsed by the small Rust-subset parser below):
  spec.rs  trait default `is_empty`;
           SliceArray::{map_idx, len, get, get_lazy, get_cheap};
           ExtendedArray::{new, len, get, get_lazy, get_cheap};
           RangeArray::{empty, new_exclusive, new_inclusive, range, len, is_empty, get, get_lazy, get_cheap}
           (+ the `len`/`nth` forwarders of WithExactSize);
           ReverseArray::{len, get, get_lazy, get_cheap};
           MappedArray::{new (length of the cache), len, bounds test of get / get_lazy, get_cheap};
           RepeatedArray::{new, len, get, get_lazy, get_cheap};
  mod.rs   ArrValue::{len, is_empty, get, get_lazy, get_cheap} forwarders (both impls), `repeated`,
           the decision tree of `extended` (with ARR_EXTEND_THRESHOLD), `slice` (the `get_idx` closure,
           the empty / Slice decision and the fields of the SliceArray built).

Result types: arithmetic lives in the panic monad `option T` (None = the Rust text panics: usize
underflow, `%`/div_ceil by zero, overflow of `+`/`*` in an overflow-checked build, i32 negation
overflow, a failed `expect`); an accessor returns `acc` (out of bounds | delegate to inner view k at
index j through the SAME accessor | manufactured element | untranslated remainder | panic).

Fail closed: every statement and every expression form must be one the translator knows; anything
else raises TranslateError, which the check reports as a broken obligation of C08.
"""
import re

from gen import TranslateError, generator, src

SPEC = "crates/jrsonnet-evaluator/src/arr/spec.rs"
MOD = "crates/jrsonnet-evaluator/src/arr/mod.rs"


def fail(msg):
    raise TranslateError("arrviews: " + msg)


# ------------------------------------------------------------------ text -> function bodies
def strip_comments(text):
    text = re.sub(r"/\*.*?\*/", " ", text, flags=re.S)
    return re.sub(r"//[^\n]*", "", text)


def match_brace(text, i, what):
    """text[i] == '{' -> index of the matching '}' (string literals skipped)"""
    assert text[i] == "{"
    depth, j, n = 0, i, len(text)
    while j < n:
        c = text[j]
        if c == '"':
            j += 1
            while j < n and text[j] != '"':
                j += 2 if text[j] == "\\" else 1
        elif c == "{":
            depth += 1
        elif c == "}":
            depth -= 1
            if depth == 0:
                return j
        j += 1
    fail(f"unbalanced braces in {what}")


def impl_block(text, header_re, what):
    ms = list(re.finditer(header_re, text))
    if len(ms) != 1:
        fail(f"{what}: expected exactly one `{header_re}`, found {len(ms)}")
    i = text.index("{", ms[0].end() - 1)
    return text[i + 1:match_brace(text, i, what)]


def fn_item(block, name, what):
    """-> (parameter text, return type text, body text) of `fn name` defined directly in the block
    (nested items, e.g. the thunk impl inside get_lazy, are not looked at)"""
    depth, ms, pat = 0, [], re.compile(r"\bfn\s+" + name + r"\s*\(")
    for i, c in enumerate(block):
        if c == "{":
            depth += 1
        elif c == "}":
            depth -= 1
        elif c == "f" and depth == 0:
            m = pat.match(block, i)
            if m and (i == 0 or not (block[i - 1].isalnum() or block[i - 1] == "_")):
                ms.append(m)
    if len(ms) != 1:
        fail(f"{what}: expected exactly one `fn {name}`, found {len(ms)}")
    j = ms[0].end()
    depth, k = 1, j
    while depth:
        depth += {"(": 1, ")": -1}.get(block[k], 0)
        k += 1
    params = block[j:k - 1]
    b = block.index("{", k)
    ret = block[k:b].strip()
    return params.strip(), ret, block[b:match_brace(block, b, what) + 1]


# ------------------------------------------------------------------ tokens
TOKEN = re.compile(r"""\s*(?:
    (?P<str>"(?:[^"\\]|\\.)*")
  | (?P<int>\d+)
  | (?P<id>[A-Za-z_]\w*)
  | (?P<op>\.\.=|::|=>|->|==|!=|>=|<=|&&|[-+*/%(){}\[\],;.:|&?!=<>'])
)""", re.X)


def tokenize(s, what):
    out, i = [], 0
    s = s.rstrip()
    while i < len(s):
        m = TOKEN.match(s, i)
        if not m or m.end() == i:
            fail(f"{what}: cannot tokenize at `{s[i:i + 30]}`")
        i = m.end()
        for k in ("str", "int", "id", "op"):
            if m.group(k) is not None:
                out.append((k, m.group(k)))
                break
    return out


# ------------------------------------------------------------------ parser (Rust subset)
class P:
    def __init__(self, toks, what):
        self.t, self.i, self.what = toks, 0, what

    def peek(self, k=0):
        return self.t[self.i + k] if self.i + k < len(self.t) else ("eof", "")

    def at(self, v, k=0):
        return self.peek(k)[1] == v and self.peek(k)[0] in ("op", "id")

    def eat(self, v):
        if not self.at(v):
            fail(f"{self.what}: expected `{v}` but found `{self.peek()[1]}` (token {self.i})")
        self.i += 1

    def ident(self):
        k, v = self.peek()
        if k != "id":
            fail(f"{self.what}: identifier expected, found `{v}`")
        self.i += 1
        return v

    # types are skipped structurally and returned as text
    def type_(self):
        start = self.i
        if self.at("&"):
            self.i += 1
        if self.at("impl") or self.at("dyn") or self.at("mut"):
            self.i += 1
        self.ident()
        while self.at("::"):
            self.i += 1
            self.ident()
        if self.at("<"):
            depth = 0
            while True:
                if self.at("<"):
                    depth += 1
                elif self.at(">"):
                    depth -= 1
                self.i += 1
                if depth == 0:
                    break
                if self.peek()[0] == "eof":
                    fail(f"{self.what}: unterminated generic type")
        return "".join(v for _, v in self.t[start:self.i])

    def block(self):
        self.eat("{")
        stmts, final = [], None
        while not self.at("}"):
            if final is not None:
                fail(f"{self.what}: expression in the middle of a block without `;`")
            if self.at("let"):
                self.i += 1
                name = self.ident()
                if self.at(":"):
                    self.i += 1
                    self.type_()
                self.eat("=")
                e = self.expr()
                self.eat(";")
                stmts.append(("let", name, e))
            elif self.at("const"):
                self.i += 1
                name = self.ident()
                self.eat(":")
                ty = self.type_()
                self.eat("=")
                e = self.expr()
                self.eat(";")
                stmts.append(("const", name, ty, e))
            elif self.at("return"):
                self.i += 1
                e = self.expr()
                self.eat(";")
                stmts.append(("return", e))
            else:
                e = self.expr()
                if self.at(";"):
                    self.i += 1
                    stmts.append(("expr", e))
                elif e[0] in ("if", "iflet") and not self.at("}"):
                    stmts.append(("expr", e))          # block-like statement
                else:
                    final = e
        self.eat("}")
        return ("block", stmts, final)

    def expr(self, nostruct=False):
        l = self.add(nostruct)
        for op in (">=", "<=", "==", "!=", ">", "<"):
            if self.at(op):
                self.i += 1
                return ("bin", op, l, self.add(nostruct))
        if self.at("..="):
            self.i += 1
            return ("rangeincl", l, self.add(nostruct))
        return l

    def add(self, ns):
        l = self.mul(ns)
        while self.at("+") or self.at("-"):
            op = self.peek()[1]
            self.i += 1
            l = ("bin", op, l, self.mul(ns))
        return l

    def mul(self, ns):
        l = self.cast(ns)
        while self.at("*") or self.at("%") or self.at("/"):
            op = self.peek()[1]
            self.i += 1
            l = ("bin", op, l, self.cast(ns))
        return l

    def cast(self, ns):
        e = self.unary(ns)
        while self.at("as"):
            self.i += 1
            e = ("as", e, self.type_())
        return e

    def unary(self, ns):
        if self.at("-"):
            self.i += 1
            return ("neg", self.unary(ns))
        return self.postfix(ns)

    def args(self):
        self.eat("(")
        out = []
        while not self.at(")"):
            out.append(self.expr())
            if not self.at(")"):
                self.eat(",")
        self.eat(")")
        return out

    def postfix(self, ns):
        e = self.primary(ns)
        while True:
            if self.at("."):
                self.i += 1
                k, v = self.peek()
                if k == "int":
                    self.i += 1
                    e = ("field", e, v)
                else:
                    name = self.ident()
                    e = ("mcall", e, name, self.args()) if self.at("(") else ("field", e, name)
            elif self.at("?"):
                self.i += 1
                e = ("try", e)
            else:
                return e

    def primary(self, ns):
        k, v = self.peek()
        if k == "int":
            self.i += 1
            return ("int", int(v))
        if k == "str":
            self.i += 1
            return ("str", v)
        if self.at("("):
            self.i += 1
            items = []
            while not self.at(")"):
                items.append(self.expr())
                if not self.at(")"):
                    self.eat(",")
            self.eat(")")
            return items[0] if len(items) == 1 else ("tuple", items)
        if self.at("|"):
            self.i += 1
            params = []
            while not self.at("|"):
                params.append(self.ident())
                if self.at(":"):
                    self.i += 1
                    self.type_()
                if not self.at("|"):
                    self.eat(",")
            self.eat("|")
            return ("closure", params, self.expr())
        if self.at("match"):
            self.i += 1
            scrut = self.expr(nostruct=True)
            self.eat("{")
            arms = []
            while not self.at("}"):
                pat = self.expr(nostruct=True)
                guard = None
                if self.at("if"):
                    self.i += 1
                    guard = self.expr(nostruct=True)
                self.eat("=>")
                body = self.expr()
                arms.append((pat, guard, body))
                if not self.at("}"):
                    self.eat(",")
            self.eat("}")
            return ("match", scrut, arms)
        if self.at("if"):
            self.i += 1
            if self.at("let"):
                self.i += 1
                pat = self.add(True)
                self.eat("=")
                scrut = self.expr(nostruct=True)
                then = self.block()
                self.eat("else")
                els = self.primary(ns) if self.at("if") else self.block()
                return ("iflet", pat, scrut, then, els)
            cond = self.expr(nostruct=True)
            then = self.block()
            els = None
            if self.at("else"):
                self.i += 1
                els = self.primary(ns) if self.at("if") else self.block()
            return ("if", cond, then, els)
        if self.at("{"):
            return self.block()
        if k == "id":
            path = [self.ident()]
            while self.at("::"):
                self.i += 1
                path.append(self.ident())
            if self.at("!"):
                fail(f"{self.what}: macro `{path[-1]}!` is not translated")
            if self.at("("):
                return ("call", path, self.args())
            if self.at("{") and not ns and path[-1][0].isupper():
                self.i += 1
                fields = []
                while not self.at("}"):
                    f = self.ident()
                    if self.at(":"):
                        self.i += 1
                        fields.append((f, self.expr()))
                    else:
                        fields.append((f, ("path", [f])))
                    if not self.at("}"):
                        self.eat(",")
                self.eat("}")
                return ("struct", path, fields)
            return ("path", path)
        fail(f"{self.what}: unexpected token `{v}`")


def parse_fn(block, name, what):
    params, ret, body = fn_item(block, name, what)
    p = P(tokenize(body, what), what)
    b = p.block()
    if p.peek()[0] != "eof":
        fail(f"{what}: trailing tokens after the body")
    return re.sub(r"\s+", " ", params), ret, b


def show(e):
    """AST -> short text (error messages, and keys of the environment)"""
    k = e[0]
    if k == "path":
        return "::".join(e[1])
    if k == "field":
        return f"{show(e[1])}.{e[2]}"
    if k == "mcall":
        return f"{show(e[1])}.{e[2]}({', '.join(show(a) for a in e[3])})"
    if k == "call":
        return f"{'::'.join(e[1])}({', '.join(show(a) for a in e[2])})"
    if k == "int":
        return str(e[1])
    if k == "bin":
        return f"({show(e[2])} {e[1]} {show(e[3])})"
    if k == "as":
        return f"({show(e[1])} as {e[2]})"
    if k == "neg":
        return f"(-{show(e[1])})"
    if k == "try":
        return show(e[1]) + "?"
    if k == "str":
        return e[1]
    return f"<{k}>"


# ------------------------------------------------------------------ expressions -> Gallina (panic monad)
# a compiled expression is (term, ty): term : option <ty>,  ty in N | Z | bool | optN | optZ | nz (NonZeroU32 as N)
def lit(n, ty):
    return f"(Some {n}%Z)" if ty == "Z" else f"(Some {n}%N)"


class Env:
    def __init__(self, what, vals=None, lens=None, funs=None):
        self.what = what
        self.vals = dict(vals or {})     # show(expr) -> (term, ty)         variables / fields
        self.lens = dict(lens or {})     # show(receiver) -> term : option N   `<receiver>.len()`
        self.funs = dict(funs or {})     # show(receiver).method -> python function(args compiled) -> (term, ty)

    def child(self):
        return Env(self.what, self.vals, self.lens, self.funs)


def cx(e, env, want=None):
    """compile an expression; `want` gives the type an integer literal should take"""
    k = e[0]
    what = env.what
    if k == "int":
        ty = want if want in ("N", "Z") else "N"
        return lit(e[1], ty), ty
    if k in ("path", "field"):
        key = show(e)
        if key in env.vals:
            return env.vals[key]
        fail(f"{what}: unknown name `{key}`")
    if k == "neg":
        t, ty = cx(e[1], env, "Z")
        if ty != "Z":
            fail(f"{what}: unary minus on a non-i32 `{show(e[1])}`")
        return f"(i_neg {t})", "Z"
    if k == "as":
        t, ty = cx(e[1], env)
        target = e[2]
        if target == "usize" and ty in ("N", "nz"):
            return t, "N"
        if target == "usize" and ty == "Z":
            return f"(i_as_usize {t})", "N"
        fail(f"{what}: cast `{show(e)}` is not translated")
    if k == "bin":
        op = e[1]
        l, lt = cx(e[2], env)
        r, rt = cx(e[3], env, lt)
        if e[2][0] == "int" and rt != lt:
            l, lt = cx(e[2], env, rt)
        if lt != rt or lt not in ("N", "Z"):
            fail(f"{what}: operands of `{show(e)}` have types {lt}/{rt}")
        if op in (">=", "<=", ">", "<", "=="):
            a, b = (l, r) if op in (">=", ">", "==") else (r, l)
            f = {"N": {">=": "u_ge", "<=": "u_ge", ">": "u_gt", "<": "u_gt", "==": "u_eq"},
                 "Z": {">=": "i_ge", "<=": "i_ge", ">": "i_gt", "<": "i_gt", "==": "i_eq"}}[lt][op]
            return f"({f} {a} {b})", "bool"
        if lt == "N" and op in ("+", "-", "*", "%"):
            f = {"+": "u_add", "-": "u_sub", "*": "u_mul", "%": "u_rem"}[op]
            return f"({f} {l} {r})", "N"
        fail(f"{what}: operator `{op}` on {lt} is not translated (`{show(e)}`)")
    if k == "mcall":
        recv, m, args = e[1], e[2], e[3]
        rkey = show(recv)
        if f"{rkey}.{m}" in env.funs:
            return env.funs[f"{rkey}.{m}"](args, env)
        if m == "len" and not args:
            if rkey in env.lens:
                return env.lens[rkey], "N"
            fail(f"{what}: `{rkey}.len()` has no translation here")
        if m == "is_empty" and not args:
            if rkey in env.lens:
                return f"(gen_is_empty_default {env.lens[rkey]})", "bool"
            fail(f"{what}: `{rkey}.is_empty()` has no translation here")
        t, ty = cx(recv, env)

        def arg1(want_ty):
            if len(args) != 1:
                fail(f"{what}: `{show(e)}`: one argument expected")
            a, aty = cx(args[0], env, want_ty)
            if aty != want_ty:
                fail(f"{what}: `{show(e)}`: argument of type {aty}, {want_ty} expected")
            return a
        if ty == "N" and m in ("div_ceil", "wrapping_sub", "wrapping_add", "saturating_sub", "min"):
            return f"(u_{m} {t} {arg1('N')})", "N"
        if ty == "N" and m in ("checked_add", "checked_mul"):
            return f"(u_{m} {t} {arg1('N')})", "optN"
        if ty == "Z" and m == "unsigned_abs" and not args:
            return f"(i_unsigned_abs {t})", "N"        # exact: |v| as a u32, no overflow case
        if ty == "Z" and m == "checked_sub":
            return f"(i_checked_sub {t} {arg1('Z')})", "optZ"
        if ty in ("optN", "optZ") and m == "expect" and len(args) == 1 and args[0][0] == "str":
            return f"(o_expect {t})", ty[3:]
        if ty == "optnzlit" and m == "expect" and len(args) == 1 and args[0][0] == "str":
            return f"(o_expect {t})", "nz"
        if ty == "nz" and m == "get" and not args:
            return t, "N"
        if ty == "optnz" and m == "unwrap_or_else" and len(args) == 1 and args[0][0] == "closure" \
                and not args[0][1]:
            d, dty = cx(args[0][2], env)
            if dty != "nz":
                fail(f"{what}: default of `{show(e)}` is not a NonZeroU32")
            return f"(o_unwrap_or {t} {d})", "nz"
        fail(f"{what}: method call `{show(e)}` on {ty} is not translated")
    if k == "call":
        path, args = "::".join(e[1]), e[2]
        if path in env.funs:
            return env.funs[path](args, env)
        if path == "NonZeroU32::new" and len(args) == 1 and args[0][0] == "int" and args[0][1] > 0:
            # NonZeroU32::new(k) for a literal k > 0 is Some(k); the `.expect` that follows unwraps it
            return f"(Some (Some {args[0][1]}%N))", "optnzlit"
        fail(f"{what}: call `{show(e)}` is not translated")
    fail(f"{what}: expression form `{k}` (`{show(e)}`) is not translated")


def cx_nzlit(e, env):
    """NonZeroU32::new(k).expect(..) -> (Some k, nz)"""
    if e[0] == "mcall" and e[2] == "expect":
        t, ty = cx(e[1], env)
        if ty == "optnzlit":
            return f"(o_expect {t})", "nz"
    fail(f"{env.what}: `{show(e)}` is not a NonZeroU32 literal")


# ------------------------------------------------------------------ accessor bodies -> acc
ACCESSORS = ("get", "get_lazy", "get_cheap")
NONE_OF = {"get": ("call", ["Ok"], [("path", ["None"])]), "get_lazy": ("path", ["None"]),
           "get_cheap": ("path", ["None"])}


def is_none_result(e, acc):
    return e == NONE_OF[acc]


def acc_block(b, env, acc, inners, own=None, opaque_rest=False):
    """b: ('block', stmts, final) of accessor `acc`.  inners: receiver text -> view number k.
    own: python function(args compiled term) for `self.get_cheap(..)` wrappers (RangeArray).
    opaque_rest: (MappedArray) after the leading bounds test the remainder is not translated; it must
    contain exactly one delegation `self.inner.<acc>(E)` for acc == get (translated) or none."""
    what = env.what
    _, stmts, final = b
    if stmts:
        s = stmts[0]
        if s[0] == "expr" and s[1][0] == "if" and s[1][3] is None:
            cond, then = s[1][1], s[1][2]
            if not (len(then[1]) == 1 and then[2] is None and then[1][0][0] == "return"
                    and is_none_result(then[1][0][1], acc)):
                fail(f"{what}: the body of the leading `if` is not `return {show(NONE_OF[acc])};`")
            c, cty = cx(cond, env)
            if cty != "bool":
                fail(f"{what}: condition is not a comparison")
            rest = acc_block(("block", stmts[1:], final), env, acc, inners, own, opaque_rest)
            return f"(acc_if {c} ANone {rest})"
        if not opaque_rest:
            fail(f"{what}: statement form `{s[0]}` is not translated in an accessor")
    if opaque_rest:
        return None  # caller decides (MappedArray)
    if final is None:
        fail(f"{what}: no final expression")
    return acc_final(final, env, acc, inners, own)


def acc_final(e, env, acc, inners, own):
    what = env.what
    if is_none_result(e, acc):
        return "ANone"
    if e[0] == "if" and e[3] is not None and e[3][0] == "block":
        c, cty = cx(e[1], env)
        if cty != "bool":
            fail(f"{what}: condition is not a comparison")
        a = acc_block(e[2], env, acc, inners, own)
        b = acc_block(e[3], env, acc, inners, own)
        return f"(acc_if {c} {a} {b})"
    if e[0] == "mcall" and show(e[1]) in inners and len(e[3]) == 1:
        if e[2] != acc:
            fail(f"{what}: `{acc}` delegates to `{show(e[1])}.{e[2]}` (a different accessor)")
        j, jty = cx(e[3][0], env)
        if jty != "N":
            fail(f"{what}: delegated index is not a usize")
        return f"(adeleg {inners[show(e[1])]} {j})"
    if own is not None:
        # Ok(self.get_cheap(E))  |  self.get_cheap(E).map(Thunk::evaluated)
        inner = None
        if acc == "get" and e[0] == "call" and e[1] == ["Ok"] and len(e[2]) == 1:
            inner = e[2][0]
        elif acc == "get_lazy" and e[0] == "mcall" and e[2] == "map" and e[3] == [("path", ["Thunk", "evaluated"])]:
            inner = e[1]
        if inner is not None and inner[0] == "mcall" and show(inner[1]) == "self" and inner[2] == "get_cheap" \
                and len(inner[3]) == 1:
            j, jty = cx(inner[3][0], env)
            if jty != "N":
                fail(f"{what}: index is not a usize")
            return own(j)
    fail(f"{what}: final expression `{show(e)}` is not translated")


# ------------------------------------------------------------------ the views
def check_params(params, expected, what):
    if params != expected:
        fail(f"{what}: parameter list is `{params}`, expected `{expected}`")


def simple_view(text, struct, fields_env, inners, lens, extra_funs=None, self_len=None):
    """translate len + the three accessors of `impl ArrayLike for <struct>`"""
    blk = impl_block(text, r"impl\s+ArrayLike\s+for\s+" + struct + r"\s*\{", f"impl ArrayLike for {struct}")
    out = {}
    params, ret, body = parse_fn(blk, "len", f"{struct}::len")
    check_params(params, "&self", f"{struct}::len")
    env = Env(f"{struct}::len", fields_env, lens, extra_funs)
    if body[1] or body[2] is None:
        fail(f"{struct}::len: a single expression is expected")
    t, ty = cx(body[2], env)
    if ty != "N":
        fail(f"{struct}::len: result is not a usize")
    out["len"] = t
    for acc in ACCESSORS:
        what = f"{struct}::{acc}"
        params, ret, body = parse_fn(blk, acc, what)
        check_params(params, "&self, index: usize", what)
        vals = dict(fields_env)
        vals["index"] = ("(Some index)", "N")
        lens2 = dict(lens)
        if self_len is not None:
            lens2["self"] = self_len
        env = Env(what, vals, lens2, extra_funs)
        out[acc] = acc_block(body, env, acc, inners)
    return out


def only_final(body, what):
    if body[1] or body[2] is None:
        fail(f"{what}: a single expression is expected")
    return body[2]


def struct_fields(e, name, what, fields):
    if e[0] != "struct" or e[1][-1] not in ("Self", name) or [f for f, _ in e[2]] != fields:
        fail(f"{what}: `{name} {{ {', '.join(fields)} }}` expected, found `{show(e)}`")
    return dict(e[2])


def lets_then(body, what):
    """block of `let` statements and a final expression -> (lets, final)"""
    lets = []
    for s in body[1]:
        if s[0] != "let":
            fail(f"{what}: only `let` statements are translated here, found `{s[0]}`")
        lets.append((s[1], s[2]))
    if body[2] is None:
        fail(f"{what}: no final expression")
    return lets, body[2]


def forwarders(blk, struct, inner_field, names_params):
    """fn X(&self, ..) { self.<inner_field>.X(..) } : checked textually through the parser"""
    for name, params, args in names_params:
        what = f"{struct}::{name}"
        p, ret, body = parse_fn(blk, name, what)
        check_params(p, params, what)
        e = only_final(body, what)
        want = ("mcall", ("field", ("path", ["self"]), inner_field), name, [("path", [a]) for a in args])
        if e != want:
            fail(f"{what}: is `{show(e)}`, expected the plain forwarder `{show(want)}`")


@generator("GenArr")
def gen_arr():
    spec = strip_comments(src(SPEC))
    mod = strip_comments(src(MOD))
    D = []   # (name, signature, term, comment)

    def define(name, sig, term, comment):
        D.append(f"(* {comment} *)\nDefinition {name} {sig} :=\n  {term}.\n")

    # ---- trait default is_empty
    trait = impl_block(spec, r"pub\s+trait\s+ArrayLike\s*:[^{]*\{", "trait ArrayLike")
    p, r, b = parse_fn(trait, "is_empty", "ArrayLike::is_empty")
    check_params(p, "&self", "ArrayLike::is_empty")
    t, ty = cx(only_final(b, "ArrayLike::is_empty"), Env("ArrayLike::is_empty", {}, {"self": "len"}))
    if ty != "bool":
        fail("ArrayLike::is_empty: not a comparison")
    define("gen_is_empty_default", "(len : option N) : option bool", t, "trait ArrayLike: default fn is_empty")

    # ---- SliceArray
    sl_fields = {"self.from": ("(Some from)", "N"), "self.to": ("(Some to)", "N"), "self.step": ("(Some step)", "nz")}
    blk = impl_block(spec, r"impl\s+SliceArray\s*\{", "impl SliceArray")
    p, r, b = parse_fn(blk, "map_idx", "SliceArray::map_idx")
    check_params(p, "&self, index: usize", "SliceArray::map_idx")
    vals = dict(sl_fields)
    vals["index"] = ("(Some index)", "N")
    t, ty = cx(only_final(b, "SliceArray::map_idx"), Env("SliceArray::map_idx", vals))
    if ty != "N":
        fail("SliceArray::map_idx: result is not a usize")
    define("gen_slice_map_idx", "(from to step index : N) : option N", t, "SliceArray::map_idx")

    def slice_map_idx(args, env):
        if len(args) != 1:
            fail(f"{env.what}: map_idx takes one argument")
        a, aty = cx(args[0], env)
        if aty != "N":
            fail(f"{env.what}: map_idx argument is not a usize")
        return f"(obind {a} (gen_slice_map_idx from to step))", "N"
    v = simple_view(spec, "SliceArray", sl_fields, {"self.inner": 0}, {}, {"self.map_idx": slice_map_idx},
                    self_len="(gen_slice_len from to step)")
    define("gen_slice_len", "(from to step : N) : option N", v["len"], "SliceArray::len")
    for acc in ACCESSORS:
        define(f"gen_slice_{acc}", "(from to step index : N) : acc", v[acc], f"SliceArray::{acc}")

    # ---- ExtendedArray
    blk = impl_block(spec, r"impl\s+ExtendedArray\s*\{", "impl ExtendedArray")
    p, r, b = parse_fn(blk, "new", "ExtendedArray::new")
    check_params(p, "a: ArrValue, b: ArrValue", "ExtendedArray::new")
    lets, fin = lets_then(b, "ExtendedArray::new")
    env = Env("ExtendedArray::new", {}, {"a": "a_len", "b": "b_len"})
    term_parts = []
    for name, e in lets:
        t, ty = cx(e, env)
        if ty != "N":
            fail(f"ExtendedArray::new: let {name} is not a usize")
        term_parts.append((name, t))
        env.vals[name] = (f"(Some v_{name})", "N")
    f = struct_fields(fin, "ExtendedArray", "ExtendedArray::new", ["a", "b", "split", "len"])
    if f["a"] != ("path", ["a"]) or f["b"] != ("path", ["b"]):
        fail("ExtendedArray::new: fields a, b are not the parameters a, b")
    ts, tys = cx(f["split"], env)
    tl, tyl = cx(f["len"], env)
    if tys != "N" or tyl != "N":
        fail("ExtendedArray::new: split/len are not usize")
    term = f"obind {ts} (fun v_split => obind {tl} (fun v_len => Some (v_split, v_len)))"
    for name, t in reversed(term_parts):
        term = f"obind {t} (fun v_{name} => {term})"
    define("gen_ext_new", "(a_len b_len : option N) : option (N * N)", term,
           "ExtendedArray::new: (split, len) of the value built")
    ext_fields = {"self.split": ("(Some split)", "N"), "self.len": ("(Some len)", "N")}
    v = simple_view(spec, "ExtendedArray", ext_fields, {"self.a": 0, "self.b": 1}, {})
    define("gen_ext_len", "(split len : N) : option N", v["len"], "ExtendedArray::len")
    for acc in ACCESSORS:
        define(f"gen_ext_{acc}", "(split len index : N) : acc", v[acc], f"ExtendedArray::{acc}")

    # ---- WithExactSize forwarders (what `.len()` / `.nth()` of `self.range()` mean)
    wes = impl_block(spec, r"impl<I,\s*T>\s+Iterator\s+for\s+WithExactSize<I>[^{]*\{", "impl Iterator for WithExactSize")
    p, r, b = parse_fn(wes, "nth", "WithExactSize::nth")
    check_params(p, "&mut self, n: usize", "WithExactSize::nth")
    if only_final(b, "WithExactSize::nth") != ("mcall", ("field", ("path", ["self"]), "0"), "nth", [("path", ["n"])]):
        fail("WithExactSize::nth is not `self.0.nth(n)`")
    wes = impl_block(spec, r"impl<I>\s+ExactSizeIterator\s+for\s+WithExactSize<I>[^{]*\{",
                     "impl ExactSizeIterator for WithExactSize")
    p, r, b = parse_fn(wes, "len", "WithExactSize::len")
    check_params(p, "&self", "WithExactSize::len")
    if only_final(b, "WithExactSize::len") != ("field", ("path", ["self"]), "1"):
        fail("WithExactSize::len is not `self.1`")

    # ---- RangeArray
    blk = impl_block(spec, r"impl\s+RangeArray\s*\{", "impl RangeArray")
    p, r, b = parse_fn(blk, "empty", "RangeArray::empty")
    check_params(p, "", "RangeArray::empty")
    e = only_final(b, "RangeArray::empty")
    if not (e[0] == "call" and e[1] == ["Self", "new_exclusive"] and len(e[2]) == 2
            and all(a[0] == "int" for a in e[2])):
        fail(f"RangeArray::empty: `Self::new_exclusive(<literal>, <literal>)` expected, found `{show(e)}`")
    define("gen_range_empty_args", ": Z * Z", f"({e[2][0][1]}%Z, {e[2][1][1]}%Z)",
           "RangeArray::empty = Self::new_exclusive of these arguments")
    p, r, b = parse_fn(blk, "new_exclusive", "RangeArray::new_exclusive")
    check_params(p, "start: i32, end: i32", "RangeArray::new_exclusive")
    e = only_final(b, "RangeArray::new_exclusive")
    # <E>.map_or_else(Self::empty, |x| Self { start, end })
    if not (e[0] == "mcall" and e[2] == "map_or_else" and len(e[3]) == 2 and e[3][0] == ("path", ["Self", "empty"])
            and e[3][1][0] == "closure" and len(e[3][1][1]) == 1):
        fail(f"RangeArray::new_exclusive: `<e>.map_or_else(Self::empty, |x| ..)` expected, found `{show(e)}`")
    env = Env("RangeArray::new_exclusive", {"start": ("(Some start)", "Z"), "end": ("(Some end_)", "Z")})
    t, ty = cx(e[1], env)
    if ty != "optZ":
        fail("RangeArray::new_exclusive: receiver of map_or_else is not an Option<i32>")
    cl = e[3][1]
    env2 = env.child()
    env2.vals[cl[1][0]] = ("(Some v_x)", "Z")
    f = struct_fields(cl[2], "RangeArray", "RangeArray::new_exclusive", ["start", "end"])
    fs, fsty = cx(f["start"], env2)
    fe, fety = cx(f["end"], env2)
    if fsty != "Z" or fety != "Z":
        fail("RangeArray::new_exclusive: fields are not i32")
    define("gen_range_new_exclusive", "(empty : Z * Z) (start end_ : Z) : option (Z * Z)",
           f"obind {t} (fun o => match o with None => Some empty | Some v_x => "
           f"obind {fs} (fun s => obind {fe} (fun e => Some (s, e))) end)",
           "RangeArray::new_exclusive; `empty` stands for the result of Self::empty()")
    p, r, b = parse_fn(blk, "new_inclusive", "RangeArray::new_inclusive")
    check_params(p, "start: i32, end: i32", "RangeArray::new_inclusive")
    f = struct_fields(only_final(b, "RangeArray::new_inclusive"), "RangeArray", "RangeArray::new_inclusive",
                      ["start", "end"])
    fs, _ = cx(f["start"], env)
    fe, _ = cx(f["end"], env)
    define("gen_range_new_inclusive", "(start end_ : Z) : option (Z * Z)",
           f"obind {fs} (fun s => obind {fe} (fun e => Some (s, e)))", "RangeArray::new_inclusive")
    p, r, b = parse_fn(blk, "range", "RangeArray::range")
    check_params(p, "&self", "RangeArray::range")
    e = only_final(b, "RangeArray::range")
    if not (e[0] == "call" and e[1] == ["WithExactSize"] and len(e[2]) == 2 and e[2][0][0] == "rangeincl"):
        fail(f"RangeArray::range: `WithExactSize(a..=b, size)` expected, found `{show(e)}`")
    renv = Env("RangeArray::range", {"self.start": ("(Some start)", "Z"), "self.end": ("(Some end_)", "Z")})
    lo, loty = cx(e[2][0][1], renv)
    hi, hity = cx(e[2][0][2], renv)
    sz, szty = cx(e[2][1], renv)
    if (loty, hity, szty) != ("Z", "Z", "N"):
        fail("RangeArray::range: unexpected types")
    define("gen_range_bounds", "(start end_ : Z) : option (Z * Z)",
           f"obind {lo} (fun l => obind {hi} (fun h => Some (l, h)))",
           "RangeArray::range: the inclusive range iterated")
    define("gen_range_size", "(start end_ : Z) : option N", sz, "RangeArray::range: the exact size reported")
    rblk = impl_block(spec, r"impl\s+ArrayLike\s+for\s+RangeArray\s*\{", "impl ArrayLike for RangeArray")
    range_len = ("mcall", ("mcall", ("path", ["self"]), "range", []), "len", [])
    p, r, b = parse_fn(rblk, "len", "RangeArray::len")
    check_params(p, "&self", "RangeArray::len")
    if only_final(b, "RangeArray::len") != range_len:
        fail("RangeArray::len is not `self.range().len()`")
    define("gen_range_len", "(start end_ : Z) : option N", "gen_range_size start end_",
           "RangeArray::len = self.range().len() = the exact size (WithExactSize::len is self.1)")
    p, r, b = parse_fn(rblk, "is_empty", "RangeArray::is_empty")
    check_params(p, "&self", "RangeArray::is_empty")
    t, ty = cx(only_final(b, "RangeArray::is_empty"),
               Env("RangeArray::is_empty", {}, {"self.range()": "(gen_range_size start end_)"}))
    if ty != "bool":
        fail("RangeArray::is_empty: not a comparison")
    define("gen_range_is_empty", "(start end_ : Z) : option bool", t, "RangeArray::is_empty")
    # get_cheap: self.range().nth(E).map(|i| Val::Num(i.into()))
    p, r, b = parse_fn(rblk, "get_cheap", "RangeArray::get_cheap")
    check_params(p, "&self, index: usize", "RangeArray::get_cheap")
    e = only_final(b, "RangeArray::get_cheap")
    num = ("closure", ["i"], ("call", ["Val", "Num"], [("mcall", ("path", ["i"]), "into", [])]))
    if not (e[0] == "mcall" and e[2] == "map" and e[3] == [num] and e[1][0] == "mcall" and e[1][2] == "nth"
            and e[1][1] == ("mcall", ("path", ["self"]), "range", []) and len(e[1][3]) == 1):
        fail(f"RangeArray::get_cheap: `self.range().nth(E).map(|i| Val::Num(i.into()))` expected, found `{show(e)}`")
    j, jty = cx(e[1][3][0], Env("RangeArray::get_cheap", {"index": ("(Some index)", "N")}))
    if jty != "N":
        fail("RangeArray::get_cheap: index is not a usize")
    define("gen_range_get_cheap", "(start end_ : Z) (index : N) : acc",
           f"range_nth (gen_range_bounds start end_) {j}", "RangeArray::get_cheap")
    for acc in ("get", "get_lazy"):
        p, r, b = parse_fn(rblk, acc, f"RangeArray::{acc}")
        check_params(p, "&self, index: usize", f"RangeArray::{acc}")
        env = Env(f"RangeArray::{acc}", {"index": ("(Some index)", "N")})
        t = acc_block(b, env, acc, {}, own=lambda j: f"(acc_at {j} (gen_range_get_cheap start end_))")
        define(f"gen_range_{acc}", "(start end_ : Z) (index : N) : acc", t, f"RangeArray::{acc}")

    # ---- ReverseArray
    v = simple_view(spec, "ReverseArray", {}, {"self.0": 0}, {"self.0": "inner_len"})
    define("gen_rev_len", "(inner_len : option N) : option N", v["len"], "ReverseArray::len")
    for acc in ACCESSORS:
        define(f"gen_rev_{acc}", "(inner_len : option N) (index : N) : acc", v[acc], f"ReverseArray::{acc}")

    # ---- MappedArray: length of the cache, bounds tests
    blk = impl_block(spec, r"impl\s+MappedArray\s*\{", "impl MappedArray")
    params, ret, body = fn_item(blk, "new", "MappedArray::new")
    check_params(re.sub(r"\s+", " ", params), "inner: ArrValue, mapper: ArrayMapper", "MappedArray::new")
    nb = re.sub(r"\s+", " ", body)
    m = re.fullmatch(r"\{ let (\w+) = (\w+)\.len\(\); Self \{ inner, cached: Cc::new\(RefCell::new\(vec!\[ArrayThunk::Waiting; (\w+)\]\)\), mapper, \} \}", nb)
    if not m or m.group(1) != m.group(3) or m.group(2) != "inner":
        fail("MappedArray::new: `let len = inner.len(); Self { inner, cached: ..vec![Waiting; len].., mapper }` expected")
    define("gen_mapped_new", "(inner_len : option N) : option N", "inner_len",
           "MappedArray::new: length of the `cached` vector = inner.len()")
    mblk = impl_block(spec, r"impl\s+ArrayLike\s+for\s+MappedArray\s*\{", "impl ArrayLike for MappedArray")
    params, ret, body = fn_item(mblk, "len", "MappedArray::len")
    if re.sub(r"\s+", " ", body) != "{ self.cached.borrow().len() }":
        fail("MappedArray::len is not `self.cached.borrow().len()`")
    define("gen_mapped_len", "(cached_len : N) : option N", "Some cached_len", "MappedArray::len")
    for acc in ("get", "get_lazy"):
        what = f"MappedArray::{acc}"
        params, ret, body = fn_item(mblk, acc, what)
        check_params(re.sub(r"\s+", " ", params), "&self, index: usize", what)
        # the leading bounds test, wherever nested items (the thunk struct of get_lazy) put it
        ms = list(re.finditer(r"if\s+([^{}]*?)\s*\{\s*return\s+([^;]*);\s*\}", body))
        ms = [x for x in ms if "self.len()" in x.group(1) or "index" in x.group(1)]
        if len(ms) != 1:
            fail(f"{what}: expected exactly one bounds test `if .. {{ return ..; }}`, found {len(ms)}")
        cond = P(tokenize(ms[0].group(1), what), what).expr(nostruct=True)
        retv = P(tokenize(ms[0].group(2), what), what).expr()
        if not is_none_result(retv, acc):
            fail(f"{what}: the bounds test does not return `{show(NONE_OF[acc])}`")
        before = body[:ms[0].start()]
        if "self.cached" in before or "self.inner" in before:
            fail(f"{what}: the cache or the inner array is touched before the bounds test")
        env = Env(what, {"index": ("(Some index)", "N")}, {"self": "(gen_mapped_len cached_len)"})
        c, cty = cx(cond, env)
        if cty != "bool":
            fail(f"{what}: bounds test is not a comparison")
        rest = "ARest"
        after = body[ms[0].end():]
        if acc == "get":
            ds = list(re.finditer(r"\.\s*inner\s*\.\s*(\w+)\s*\(([^()]*)\)", after))
            if len(ds) != 1:
                fail(f"{what}: expected exactly one delegation `self.inner.<accessor>(E)` after the bounds test")
            via = ds[0].group(1)
            if via == "get_lazy":
                # the mapper receives the element's thunk: self.inner.get_lazy(E).expect("index checked")
                if not re.match(r'\s*\.\s*expect\s*\(\s*"[^"]*"\s*\)', after[ds[0].end():]):
                    fail(f"{what}: `self.inner.get_lazy(E)` is not followed by `.expect(..)`")
            elif via != "get":
                fail(f"{what}: delegation through `{via}` is not translated")
            ds = [(via, ds[0].group(2))]
            j, jty = cx(P(tokenize(ds[0][1], what), what).expr(), env)
            if jty != "N":
                fail(f"{what}: delegated index is not a usize")
            rest = f"(adeleg 0 {j})"
        for idx in re.findall(r"\[([^\[\]]*)\]", after):
            if idx.strip() != "index" and "ArrayThunk" not in idx and "derive" not in idx:
                fail(f"{what}: the cache is indexed by `{idx}`, not by `index`")
        define(f"gen_mapped_{acc}", "(cached_len index : N) : acc", f"(acc_if {c} ANone {rest})",
               f"MappedArray::{acc}: the bounds test"
               + (f" and the index delegated to (through self.inner.{via})" if acc == "get" else "; ARest = the thunk built for an in-bounds index"))
    p, r, b = parse_fn(mblk, "get_cheap", "MappedArray::get_cheap")
    check_params(p, "&self, _index: usize", "MappedArray::get_cheap")
    define("gen_mapped_get_cheap", "(cached_len index : N) : acc",
           acc_final(only_final(b, "MappedArray::get_cheap"), Env("MappedArray::get_cheap"), "get_cheap", {}, None),
           "MappedArray::get_cheap")

    # ---- RepeatedArray
    blk = impl_block(spec, r"impl\s+RepeatedArray\s*\{", "impl RepeatedArray")
    p, r, b = parse_fn(blk, "new", "RepeatedArray::new")
    check_params(p, "data: ArrValue, repeats: usize", "RepeatedArray::new")
    lets, fin = lets_then(b, "RepeatedArray::new")
    if len(lets) != 1 or lets[0][1][0] != "try":
        fail("RepeatedArray::new: `let total_len = <checked op>?;` expected")
    env = Env("RepeatedArray::new", {"repeats": ("(Some repeats)", "N")}, {"data": "data_len"})
    t, ty = cx(lets[0][1][1], env)
    if ty != "optN":
        fail("RepeatedArray::new: `?` is applied to something that is not an Option<usize>")
    if not (fin[0] == "call" and fin[1] == ["Some"] and len(fin[2]) == 1):
        fail("RepeatedArray::new: final `Some(Self { .. })` expected")
    f = struct_fields(fin[2][0], "RepeatedArray", "RepeatedArray::new", ["data", "repeats", "total_len"])
    env.vals[lets[0][0]] = ("(Some v_t)", "N")
    if f["data"] != ("path", ["data"]) or f["repeats"] != ("path", ["repeats"]):
        fail("RepeatedArray::new: fields data/repeats are not the parameters")
    tt, tty = cx(f["total_len"], env)
    if tty != "N":
        fail("RepeatedArray::new: total_len is not a usize")
    define("gen_rep_new", "(data_len : option N) (repeats : N) : option (option N)",
           f"obind {t} (fun o => match o with None => Some None | Some v_t => obind {tt} (fun x => Some (Some x)) end)",
           "RepeatedArray::new: None = panic, Some None = `?` returned None, Some (Some total_len)")
    rep_fields = {"self.repeats": ("(Some repeats)", "N"), "self.total_len": ("(Some total_len)", "N")}
    v = simple_view(spec, "RepeatedArray", rep_fields, {"self.data": 0}, {"self.data": "data_len"})
    define("gen_rep_len", "(data_len : option N) (repeats total_len : N) : option N", v["len"], "RepeatedArray::len")
    for acc in ACCESSORS:
        define(f"gen_rep_{acc}", "(data_len : option N) (repeats total_len index : N) : acc", v[acc],
               f"RepeatedArray::{acc}")

    # ================================================================= arr/mod.rs
    fw = [("len", "&self", []), ("get", "&self, index: usize", ["index"]),
          ("get_lazy", "&self, index: usize", ["index"]), ("get_cheap", "&self, index: usize", ["index"]),
          ("is_cheap", "&self", [])]
    forwarders(impl_block(mod, r"impl\s+ArrayLike\s+for\s+ArrValue\s*\{", "impl ArrayLike for ArrValue"),
               "<ArrValue as ArrayLike>", "0", fw)
    inh = impl_block(mod, r"impl\s+ArrValue\s*\{", "impl ArrValue")
    forwarders(inh, "ArrValue", "0", fw + [("is_empty", "&self", [])])

    # ---- repeated
    p, r, b = parse_fn(inh, "repeated", "ArrValue::repeated")
    check_params(p, "data: Self, repeats: usize", "ArrValue::repeated")
    e = only_final(b, "ArrValue::repeated")
    want = ("call", ["Some"], [("call", ["Self", "new"], [("try", ("call", ["RepeatedArray", "new"],
                                                                  [("path", ["data"]), ("path", ["repeats"])]))])])
    if e != want:
        fail(f"ArrValue::repeated: is `{show(e)}`, expected `{show(want)}`")
    define("gen_repeated", "(data_len : option N) (repeats : N) : option (option N)", "gen_rep_new data_len repeats",
           "ArrValue::repeated = Some(Self::new(RepeatedArray::new(data, repeats)?)): total_len of the view built")

    # ---- extended
    # `let mut out = ..`: `mut` would be an identifier to the parser; normalise it away
    p, r, b = parse_fn(re.sub(r"\blet\s+mut\b", "let", inh), "extended", "ArrValue::extended")
    check_params(p, "a: Self, b: Self", "ArrValue::extended")
    if len(b[1]) != 1 or b[1][0][0] != "const" or b[2] is None:
        fail("ArrValue::extended: `const ..; if .. else ..` expected")
    _, cname, cty, cval = b[1][0]
    if cty != "usize" or cval[0] != "int":
        fail("ArrValue::extended: the constant is not a usize literal")
    define("gen_arr_extend_threshold", ": N", f"{cval[1]}%N", f"const {cname}")
    env = Env("ArrValue::extended", {cname: ("(Some gen_arr_extend_threshold)", "N")}, {"a": "a_len", "b": "b_len"})

    def ext_tree(e):
        if e[0] == "block":
            if e[1] and not (e[2] is not None and all(s[0] in ("let", "expr") for s in e[1])):
                fail("ArrValue::extended: unexpected statements in a branch")
            if not e[1]:
                return ext_leaf(e[2])
            return ext_flatten(e)
        if e[0] == "if":
            if e[3] is None:
                fail("ArrValue::extended: `if` without `else`")
            c, cty2 = cx(e[1], env)
            if cty2 != "bool":
                fail("ArrValue::extended: condition is not a comparison / is_empty")
            return f"(eres_if {c} {ext_tree(e[2])} {ext_tree(e[3])})"
        if e[0] == "iflet":
            # if let (Some(a), Some(b)) = (a.iter_cheap(), b.iter_cheap()) { eager } else { lazy }
            pat = ("tuple", [("call", ["Some"], [("path", ["a"])]), ("call", ["Some"], [("path", ["b"])])])
            scr = ("tuple", [("mcall", ("path", ["a"]), "iter_cheap", []), ("mcall", ("path", ["b"]), "iter_cheap", [])])
            if e[1] != pat or e[2] != scr:
                fail("ArrValue::extended: the `if let` is not `(Some(a), Some(b)) = (a.iter_cheap(), b.iter_cheap())`")
            x = ext_flatten(e[3], cheap=True)
            y = ext_flatten(e[4], cheap=False)
            if x != y:
                fail("ArrValue::extended: the eager and the lazy branch flatten in different orders")
            return x
        fail(f"ArrValue::extended: branch `{show(e)}` is not translated")

    def ext_leaf(e):
        if e == ("path", ["a"]):
            return "ETakeA"
        if e == ("path", ["b"]):
            return "ETakeB"
        if e == ("call", ["Self", "new"], [("call", ["ExtendedArray", "new"], [("path", ["a"]), ("path", ["b"])])]):
            return "ELink"
        fail(f"ArrValue::extended: result `{show(e)}` is not translated")

    def ext_flatten(blk_, cheap=None):
        if cheap is None:
            fail("ArrValue::extended: a flattening branch outside the `if let`")
        stmts, fin = blk_[1], blk_[2]
        src_of = {True: [(("path", ["a"]), 0), (("path", ["b"]), 1)],
                  False: [(("mcall", ("path", ["a"]), "iter_lazy", []), 0),
                          (("mcall", ("path", ["b"]), "iter_lazy", []), 1)]}[cheap]
        if not stmts or stmts[0][0] != "let" or stmts[0][1] != "out":
            fail("ArrValue::extended: flattening branch does not start with `let mut out`")
        order = []
        for s in stmts[1:]:
            if s[0] == "expr" and s[1][0] == "mcall" and s[1][1] == ("path", ["out"]) and s[1][2] == "extend" \
                    and len(s[1][3]) == 1 and s[1][3][0] in [x for x, _ in src_of]:
                order.append(dict((repr(x), k) for x, k in src_of)[repr(s[1][3][0])])
            else:
                fail("ArrValue::extended: unexpected statement in a flattening branch")
        if fin != ("call", ["Self", "eager" if cheap else "lazy"], [("path", ["out"])]):
            fail("ArrValue::extended: flattening branch does not end with Self::eager(out) / Self::lazy(out)")
        return "(EFlatten [" + "; ".join(f"{k}%N" for k in order) + "])"

    define("gen_extended", "(a_len b_len : option N) : eres", ext_tree(b[2]), "ArrValue::extended: the decision tree")

    # ---- slice
    p, r, b = parse_fn(inh, "slice", "ArrValue::slice")
    check_params(p, "self, index: Option<i32>, end: Option<i32>, step: Option<NonZeroU32>", "ArrValue::slice")
    stmts, fin = b[1], b[2]
    if len(stmts) != 5 or [s[0] for s in stmts] != ["let", "let", "let", "let", "expr"]:
        fail("ArrValue::slice: expected four `let`s, the emptiness test and the SliceArray")
    # (1) the closure
    name, cl = stmts[0][1], stmts[0][2]
    if not (cl[0] == "closure" and cl[1] == ["pos", "len", "default"] and cl[2][0] == "match"
            and cl[2][1] == ("path", ["pos"])):
        fail("ArrValue::slice: `let get_idx = |pos, len, default| match pos { .. }` expected")
    cenv = Env("ArrValue::slice get_idx", {"len": ("(Some len)", "N"), "default": ("(Some default)", "N")})
    some_arms, none_arm = [], None
    for pat, guard, body in cl[2][2]:
        if pat[0] == "call" and pat[1] == ["Some"] and len(pat[2]) == 1 and pat[2][0][0] == "path":
            if none_arm is not None and False:
                pass
            some_arms.append((pat[2][0][1][0], guard, body))
        elif pat == ("path", ["None"]) and guard is None and none_arm is None:
            none_arm = body
        else:
            fail(f"ArrValue::slice get_idx: arm pattern `{show(pat)}` is not translated")
    if none_arm is None or not some_arms or some_arms[-1][1] is not None \
            or any(g is None for _, g, _ in some_arms[:-1]):
        fail("ArrValue::slice get_idx: arms must be guarded Some(..)s, one unguarded Some(..), and None")
    some_term = None
    for var, guard, body in reversed(some_arms):
        e2 = cenv.child()
        e2.vals[var] = ("(Some v)", "Z")
        bt, bty = cx(body, e2)
        if bty != "N":
            fail("ArrValue::slice get_idx: arm result is not a usize")
        if guard is None:
            some_term = bt
        else:
            g, gty = cx(guard, e2)
            if gty != "bool":
                fail("ArrValue::slice get_idx: guard is not a comparison")
            some_term = f"(o_if {g} {bt} {some_term})"
    nt, nty = cx(none_arm, cenv)
    if nty != "N":
        fail("ArrValue::slice get_idx: None arm is not a usize")
    define("gen_slice_get_idx", "(pos : option Z) (len default : N) : option N",
           f"match pos with Some v => {some_term} | None => {nt} end", "ArrValue::slice: the get_idx closure")

    def call_get_idx(args, env_):
        if len(args) != 3:
            fail("ArrValue::slice: get_idx takes three arguments")
        pos = show(args[0])
        if pos not in env_.vals or env_.vals[pos][1] != "posarg":
            fail(f"ArrValue::slice: first argument of get_idx `{pos}` is not a position parameter")
        a, aty = cx(args[1], env_)
        d, dty = cx(args[2], env_, "N")
        if aty != "N" or dty != "N":
            fail("ArrValue::slice: get_idx arguments are not usize")
        return f"(obind {a} (fun l => obind {d} (fun d => gen_slice_get_idx {env_.vals[pos][0]} l d)))", "N"
    senv = Env("ArrValue::slice", {"index": ("index", "posarg"), "end": ("end_", "posarg"),
                                   "step": ("(Some step)", "optnz")},
               {"self": "self_len"}, {name: call_get_idx})
    terms = []
    for i, var in ((1, "index"), (2, "end")):
        if stmts[i][1] != var:
            fail(f"ArrValue::slice: `let {var} = ..` expected")
        t, ty = cx(stmts[i][2], senv)
        if ty != "N":
            fail(f"ArrValue::slice: `{var}` is not a usize")
        terms.append((var, t))
        senv.vals[var] = (f"(Some v_{var})", "N")
    if stmts[3][1] != "step":
        fail("ArrValue::slice: `let step = ..` expected")
    st = stmts[3][2]
    if not (st[0] == "mcall" and st[1] == ("path", ["step"]) and st[2] == "unwrap_or_else" and len(st[3]) == 1
            and st[3][0][0] == "closure" and not st[3][0][1]):
        fail("ArrValue::slice: `step.unwrap_or_else(|| ..)` expected")
    d, dty = cx_nzlit(st[3][0][2], senv)
    terms.append(("step", f"(o_unwrap_or (Some step) {d})"))
    senv.vals["step"] = ("(Some v_step)", "nz")
    test = stmts[4][1]
    if not (test[0] == "if" and test[3] is None and len(test[2][1]) == 1 and test[2][2] is None
            and test[2][1][0] == ("return", ("call", ["Self", "empty"], []))):
        fail("ArrValue::slice: `if .. { return Self::empty(); }` expected")
    c, cty = cx(test[1], senv)
    if cty != "bool":
        fail("ArrValue::slice: emptiness test is not a comparison")
    if not (fin[0] == "call" and fin[1] == ["Self", "new"] and len(fin[2]) == 1):
        fail("ArrValue::slice: final `Self::new(SliceArray { .. })` expected")
    f = struct_fields(fin[2][0], "SliceArray", "ArrValue::slice", ["inner", "from", "to", "step"])
    if f["inner"] != ("path", ["self"]):
        fail("ArrValue::slice: inner is not self")
    parts = []
    for fld in ("from", "to", "step"):
        t, ty = cx(f[fld], senv)
        if ty != "N":
            fail(f"ArrValue::slice: field {fld} is not an unsigned integer")
        parts.append(t)
    term = (f"sres_if {c} SEmpty (sres_slice {parts[0]} {parts[1]} {parts[2]})")
    for var, t in reversed(terms):
        term = f"sres_bind {t} (fun v_{var} => {term})"
    define("gen_slice", "(self_len : option N) (index end_ : option Z) (step : option N) : sres", term,
           "ArrValue::slice: clamped bounds, the empty / SliceArray decision and the fields of the view built")

    # ---- empty
    p, r, b = parse_fn(inh, "empty", "ArrValue::empty")
    if only_final(b, "ArrValue::empty") != ("call", ["Self", "new"], [("call", ["RangeArray", "empty"], [])]):
        fail("ArrValue::empty is not Self::new(RangeArray::empty())")
    for nm, ctor in (("range_exclusive", "new_exclusive"), ("range_inclusive", "new_inclusive")):
        p, r, b = parse_fn(inh, nm, f"ArrValue::{nm}")
        check_params(p, "a: i32, b: i32", f"ArrValue::{nm}")
        if only_final(b, f"ArrValue::{nm}") != ("call", ["Self", "new"], [("call", ["RangeArray", ctor],
                                                                         [("path", ["a"]), ("path", ["b"])])]):
            fail(f"ArrValue::{nm} is not Self::new(RangeArray::{ctor}(a, b))")
    p, r, b = parse_fn(inh, "reversed", "ArrValue::reversed")
    if only_final(b, "ArrValue::reversed") != ("call", ["Self", "new"], [("call", ["ReverseArray"], [("path", ["self"])])]):
        fail("ArrValue::reversed is not Self::new(ReverseArray(self))")

    return PREAMBLE + "\n".join(D)


PREAMBLE = r"""From Coq Require Import ZArith NArith Bool List.
Import ListNotations.
Open Scope N_scope.

(** Semantics of the Rust primitives the translated text uses (fixed text of the translator).
    Everything lives in the panic monad: [None] = the Rust expression panics. *)
Definition g_usize_lim : N := 18446744073709551616.
Definition g_i32_min : Z := (-2147483648)%Z.
Definition g_i32_max : Z := 2147483647%Z.
Definition obind {A B} (o : option A) (f : A -> option B) : option B :=
  match o with Some a => f a | None => None end.
Definition olift2 {A B C} (f : A -> B -> option C) (a : option A) (b : option B) : option C :=
  obind a (fun x => obind b (fun y => f x y)).
Definition g_ck (n : N) : option N := if n <? g_usize_lim then Some n else None.
(* usize `+` `*` `-` `%` as an overflow-checked build executes them *)
Definition u_add := olift2 (fun a b => g_ck (a + b)).
Definition u_mul := olift2 (fun a b => g_ck (a * b)).
Definition u_sub := olift2 (fun a b => if a <? b then None else Some (a - b)).
Definition u_rem := olift2 (fun a b => if b =? 0 then None else Some (a mod b)).
(* usize::div_ceil: quotient rounded towards positive infinity; panics when the divisor is zero *)
Definition u_div_ceil :=
  olift2 (fun a b => if b =? 0 then None else Some (a / b + (if 0 <? a mod b then 1 else 0))).
Definition u_wrapping_sub := olift2 (fun a b => Some ((a + g_usize_lim - b mod g_usize_lim) mod g_usize_lim)).
Definition u_wrapping_add := olift2 (fun a b => Some ((a + b) mod g_usize_lim)).
Definition u_saturating_sub := olift2 (fun a b => Some (a - b)).
Definition u_min := olift2 (fun a b => Some (N.min a b)).
Definition u_checked_add := olift2 (fun a b => Some (g_ck (a + b))).
Definition u_checked_mul := olift2 (fun a b => Some (g_ck (a * b))).
Definition u_ge := olift2 (fun a b => Some (b <=? a)).
Definition u_gt := olift2 (fun a b => Some (b <? a)).
Definition u_eq := olift2 (fun a b => Some (a =? b)).
(* i32 *)
Definition i_ge := olift2 (fun a b => Some (b <=? a)%Z).
Definition i_gt := olift2 (fun a b => Some (b <? a)%Z).
Definition i_eq := olift2 (fun a b => Some (a =? b)%Z).
Definition i_neg (a : option Z) : option Z :=
  obind a (fun x => if (x =? g_i32_min)%Z then None else Some (- x)%Z).
Definition i_unsigned_abs (a : option Z) : option N := obind a (fun x => Some (Z.abs_N x)).
Definition i_checked_sub :=
  olift2 (fun a b => Some (if ((g_i32_min <=? a - b) && (a - b <=? g_i32_max))%Z then Some (a - b)%Z else None)).
(* `x as usize` on an i32: sign extension *)
Definition i_as_usize (a : option Z) : option N :=
  obind a (fun x => Some (Z.to_N (x mod Z.of_N g_usize_lim))).
Definition o_expect {A} (o : option (option A)) : option A := obind o (fun x => x).
Definition o_unwrap_or {A} (o : option (option A)) (d : option A) : option A :=
  obind o (fun x => match x with Some v => Some v | None => d end).
Definition o_if {A} (c : option bool) (a b : option A) : option A :=
  obind c (fun x => if x then a else b).

(** result of an accessor ([get] / [get_lazy] / [get_cheap]) *)
Inductive acc :=
| ANone                       (* Ok(None) / None: out of bounds *)
| ADeleg (k : N) (j : N)      (* the same accessor of inner view k (0: inner / .0 / data / a, 1: b) at index j *)
| AElem (z : Z)               (* Some(Val::Num(z)) *)
| ARest                       (* in bounds; the remainder of the function is not translated (MappedArray) *)
| APanic.
Definition acc_if (c : option bool) (a b : acc) : acc :=
  match c with None => APanic | Some true => a | Some false => b end.
Definition adeleg (k : N) (j : option N) : acc :=
  match j with None => APanic | Some j => ADeleg k j end.
Definition acc_at (j : option N) (f : N -> acc) : acc :=
  match j with None => APanic | Some j => f j end.
(* RangeInclusive<i32>::nth(n) followed by .map(|i| Val::Num(i.into())) *)
Definition range_nth (bounds : option (Z * Z)) (n : option N) : acc :=
  match bounds, n with
  | Some (lo, hi), Some n => if (lo + Z.of_N n <=? hi)%Z then AElem (lo + Z.of_N n) else ANone
  | _, _ => APanic
  end.

(** result of ArrValue::extended *)
Inductive eres := EPanic | ETakeA | ETakeB | ELink | EFlatten (order : list N).
Definition eres_if (c : option bool) (a b : eres) : eres :=
  match c with None => EPanic | Some true => a | Some false => b end.
(** result of ArrValue::slice *)
Inductive sres := SPanic | SEmpty | SSlice (from to step : N).
Definition sres_if (c : option bool) (a b : sres) : sres :=
  match c with None => SPanic | Some true => a | Some false => b end.
Definition sres_bind (o : option N) (f : N -> sres) : sres :=
  match o with None => SPanic | Some x => f x end.
Definition sres_slice (a b c : option N) : sres :=
  match a, b, c with Some a, Some b, Some c => SSlice a b c | _, _, _ => SPanic end.

(** ---- translated from the source text ---- *)
"""
