"""GenTrace.v: inventory of every struct / enum defined in crates/jrsonnet-evaluator/src with
its fields (syntactic type, `#[trace(skip)]` or not) and whether the item derives `Trace`.

The Coq side (C18/Trace.v) decides on this table that no skipped field of a derive(Trace) type
can own a `Cc`.  Fail closed: an item or a type the parser does not understand raises
TranslateError."""
import os
import re

from gen import REPO, TranslateError, generator

ROOT = "crates/jrsonnet-evaluator/src"


# ---------------------------------------------------------------- lexer
def lex(text, path):
    toks = []
    i, n = 0, len(text)
    while i < n:
        c = text[i]
        if c.isspace():
            i += 1
        elif text.startswith("//", i):
            j = text.find("\n", i)
            i = n if j < 0 else j
        elif text.startswith("/*", i):
            depth, i = 1, i + 2
            while i < n and depth:
                if text.startswith("/*", i):
                    depth, i = depth + 1, i + 2
                elif text.startswith("*/", i):
                    depth, i = depth - 1, i + 2
                else:
                    i += 1
        elif c == '"' or (c in "br" and re.match(r'b?r?#*"', text[i:i + 6])):
            m = re.match(r'b?r(#*)"', text[i:])
            if m:
                end = '"' + m.group(1)
                j = text.find(end, i + len(m.group(0)))
                if j < 0:
                    raise TranslateError(f"{path}: unterminated raw string")
                i = j + len(end)
            else:
                j = i + (2 if c == "b" else 1)
                while j < n and text[j] != '"':
                    j += 2 if text[j] == "\\" else 1
                i = j + 1
            toks.append(("lit", "str"))
        elif c == "'":
            m = re.match(r"'(\\.[^']*|[^'\\])'", text[i:])
            if m:
                toks.append(("lit", "chr"))
                i += len(m.group(0))
            else:
                m = re.match(r"'[A-Za-z_]\w*", text[i:])
                if not m:
                    raise TranslateError(f"{path}: stray quote")
                toks.append(("life", m.group(0)))
                i += len(m.group(0))
        elif c.isalpha() or c == "_":
            m = re.match(r"\w+", text[i:])
            toks.append(("id", m.group(0)))
            i += len(m.group(0))
        elif c.isdigit():
            m = re.match(r"[\w.]+", text[i:])
            toks.append(("lit", m.group(0)))
            i += len(m.group(0))
        elif text.startswith("->", i) or text.startswith("=>", i) or text.startswith("::", i):
            toks.append(("p", text[i:i + 2]))
            i += 2
        else:
            toks.append(("p", c))
            i += 1
    return toks


CLOSE = {"(": ")", "[": "]", "{": "}", "<": ">"}


def skip_group(toks, i):
    """toks[i] is an opening bracket; returns index after its match (strings are atoms)"""
    opener = toks[i][1]
    stack = [CLOSE[opener]]
    i += 1
    while stack:
        if i >= len(toks):
            raise TranslateError("unbalanced brackets")
        k, v = toks[i]
        if k == "p":
            if v in "([{" or (v == "<" and stack[-1] == ">"):
                stack.append(CLOSE[v])
            elif v == stack[-1]:
                stack.pop()
        i += 1
    return i


# ---------------------------------------------------------------- type parser
class P:
    def __init__(self, toks, where):
        self.t, self.i, self.where = toks, 0, where

    def peek(self, k=0):
        return self.t[self.i + k] if self.i + k < len(self.t) else ("eof", "")

    def eat(self, v):
        if self.peek()[1] != v:
            raise TranslateError(f"{self.where}: expected `{v}` at token {self.i} of {self.t}")
        self.i += 1

    def ty(self):
        k, v = self.peek()
        if v == "&":
            self.i += 1
            if self.peek()[0] == "life":
                self.i += 1
            if self.peek()[1] == "mut":
                self.i += 1
            return ("ref", self.ty())
        if v == "*":
            self.i += 2
            return ("other", "raw pointer")
        if v == "dyn":
            self.i += 1
            name = self.path_name()
            if self.peek()[1] == "<":
                self.generics()
            while self.peek()[1] == "+":
                self.i += 1
                if self.peek()[0] == "life":
                    self.i += 1
                else:
                    self.path_name()
            return ("dyn", name)
        if v in ("fn", "unsafe", "extern"):
            while self.peek()[1] != "fn":
                self.i += 1
            self.i += 1
            self.i = skip_group(self.t, self.i)
            if self.peek()[1] == "->":
                self.i += 1
                self.ty()
            return ("fn",)
        if v == "(":
            self.i += 1
            items = []
            while self.peek()[1] != ")":
                items.append(self.ty())
                if self.peek()[1] == ",":
                    self.i += 1
            self.i += 1
            return ("tuple", items)
        if v == "[":
            self.i += 1
            inner = self.ty()
            if self.peek()[1] == ";":
                while self.peek()[1] != "]":
                    self.i += 1
            self.eat("]")
            return ("path", "[]", [inner])
        if v == "!":
            self.i += 1
            return ("tuple", [])
        if k == "id" or v == "::":
            name = self.path_name()
            if self.peek()[1] == "!" and self.peek(1)[1] in ("(", "[", "{"):
                # macro in type position (NativeFn!(..)): opaque
                self.i = skip_group(self.t, self.i + 1)
                return ("path", name + "!", [])
            args = self.generics() if self.peek()[1] == "<" else []
            # associated path after generics (`<..>::Name`) is not used in this crate
            return ("path", name, args)
        raise TranslateError(f"{self.where}: cannot parse type at `{v}` in {self.t}")

    def path_name(self):
        parts = []
        if self.peek()[1] == "::":
            self.i += 1
        while True:
            k, v = self.peek()
            if k != "id":
                raise TranslateError(f"{self.where}: expected path segment, got `{v}`")
            parts.append(v)
            self.i += 1
            if self.peek()[1] == "::" and self.peek(1)[0] == "id":
                self.i += 1
            else:
                break
        return "::".join(parts)

    def generics(self):
        self.eat("<")
        args = []
        while self.peek()[1] != ">":
            k, v = self.peek()
            if k == "life" or k == "lit":
                self.i += 1
            elif k == "id" and self.peek(1)[1] == "=":
                self.i += 2
                args.append(self.ty())
            else:
                args.append(self.ty())
            if self.peek()[1] == ",":
                self.i += 1
        self.eat(">")
        return args


def split_top(toks):
    """split a token list at top-level commas"""
    parts, cur, i = [], [], 0
    while i < len(toks):
        k, v = toks[i]
        if k == "p" and v in "([{<":
            if v == "<" and not (cur and (cur[-1][0] == "id" or cur[-1][1] == "::")):
                cur.append(toks[i])
                i += 1
                continue
            j = skip_group(toks, i)
            cur.extend(toks[i:j])
            i = j
            continue
        if k == "p" and v == ",":
            parts.append(cur)
            cur = []
        else:
            cur.append(toks[i])
        i += 1
    if cur:
        parts.append(cur)
    return parts


def take_attrs(toks):
    """leading `#[...]` attributes -> (list of attribute token lists, rest)"""
    attrs, i = [], 0
    while i + 1 < len(toks) and toks[i][1] == "#" and toks[i + 1][1] == "[":
        j = skip_group(toks, i + 1)
        attrs.append(toks[i + 2:j - 1])
        i = j
    return attrs, toks[i:]


def is_skip(attrs):
    for a in attrs:
        vals = [v for _, v in a]
        if vals[:1] == ["trace"] and "skip" in vals:
            return True
    return False


def strip_vis(toks):
    if toks and toks[0][1] == "pub":
        toks = toks[1:]
        if toks and toks[0][1] == "(":
            toks = toks[skip_group(toks, 0):]
    return toks


def parse_fields(body, named, where, prefix=""):
    out = []
    for n, part in enumerate(split_top(body)):
        attrs, rest = take_attrs(part)
        rest = strip_vis(rest)
        if not rest:
            continue
        if named:
            if rest[0][0] != "id" or len(rest) < 3 or rest[1][1] != ":":
                raise TranslateError(f"{where}: cannot parse field {rest[:4]}")
            name, tt = rest[0][1], rest[2:]
        else:
            name, tt = str(n), rest
        p = P(tt, f"{where}.{prefix}{name}")
        t = p.ty()
        if p.i != len(tt):
            raise TranslateError(f"{where}.{prefix}{name}: trailing tokens in type {tt[p.i:]}")
        out.append((prefix + name, is_skip(attrs), t))
    return out


def parse_items(path, text):
    toks = lex(text, path)
    items = []
    i = 0
    pending = []
    depth = 0
    while i < len(toks):
        k, v = toks[i]
        if k == "id" and v == "type" and depth == 0 and i + 1 < len(toks) and toks[i + 1][0] == "id":
            # top-level alias `type Name<..> = Type;`
            name = toks[i + 1][1]
            j = i + 2
            params = []
            if toks[j][1] == "<":
                e = skip_group(toks, j)
                for part in split_top(toks[j + 1:e - 1]):
                    if part and part[0][0] == "id":
                        params.append(part[0][1])
                j = e
            if toks[j][1] != "=":
                raise TranslateError(f"{path}:{name}: alias without `=`")
            e = j + 1
            while toks[e][1] != ";":
                e = skip_group(toks, e) if toks[e][1] in ("(", "[", "{") else e + 1
            tt = toks[j + 1:e]
            p = P(tt, f"{path}:{name}")
            try:
                t = p.ty()
                if p.i != len(tt):
                    t = ("other", "unparsed alias")
            except TranslateError:
                t = ("other", "unparsed alias")   # conservative: may own anything
            items.append({"name": name, "file": path, "trace": False, "params": params, "fields": [("=", False, t)]})
            pending = []
            i = e + 1
            continue
        if v == "#" and i + 1 < len(toks) and toks[i + 1][1] in ("[", "!"):
            j = i + 1
            if toks[j][1] == "!":
                j += 1
            e = skip_group(toks, j)
            pending.append(toks[j + 1:e - 1])
            i = e
            continue
        if k == "id" and v in ("struct", "enum") and i + 1 < len(toks) and toks[i + 1][0] == "id" \
                and (i == 0 or toks[i - 1][1] != "$"):
            kind, name = v, toks[i + 1][1]
            where = f"{path}:{name}"
            j = i + 2
            params = []
            if j < len(toks) and toks[j][1] == "<":
                e = skip_group(toks, j)
                for part in split_top(toks[j + 1:e - 1]):
                    if part and part[0][0] == "id" and part[0][1] != "const":
                        params.append(part[0][1])
                j = e
            derives = set()
            for a in pending:
                if a and a[0][1] == "derive":
                    derives |= {t[1] for t in a if t[0] == "id"}
            fields = []
            # skip a where clause
            while j < len(toks) and toks[j][1] not in ("{", "(", ";"):
                j += 1
            if j >= len(toks):
                raise TranslateError(f"{where}: no body")
            if toks[j][1] == ";":
                j += 1
            elif toks[j][1] == "(":
                e = skip_group(toks, j)
                fields = parse_fields(toks[j + 1:e - 1], False, where)
                j = e
            else:
                e = skip_group(toks, j)
                body = toks[j + 1:e - 1]
                if kind == "struct":
                    fields = parse_fields(body, True, where)
                else:
                    for part in split_top(body):
                        _attrs, rest = take_attrs(part)
                        if not rest:
                            continue
                        vname = rest[0][1]
                        if len(rest) > 1 and rest[1][1] == "{":
                            e2 = skip_group(rest, 1)
                            fields += parse_fields(rest[2:e2 - 1], True, where, vname + ".")
                        elif len(rest) > 1 and rest[1][1] == "(":
                            e2 = skip_group(rest, 1)
                            fields += parse_fields(rest[2:e2 - 1], False, where, vname + ".")
                j = e
            items.append({"name": name, "file": path, "trace": "Trace" in derives, "params": params,
                          "fields": fields})
            pending = []
            i = j
            continue
        if k == "p" and v in (";", "{", "}"):
            pending = []
            depth += 1 if v == "{" else -1 if v == "}" else 0
        elif k == "id" and v in ("fn", "impl", "trait", "mod", "type", "const", "static", "use", "macro_rules"):
            pending = []
        i += 1
    return items


# ---------------------------------------------------------------- Coq output
def cq_str(s):
    return '"' + s.replace('"', '""') + '"'


def cq_ty(t):
    if t[0] == "path":
        return f"(TPath {cq_str(t[1])} [" + "; ".join(cq_ty(a) for a in t[2]) + "])"
    if t[0] == "ref":
        return f"(TRef {cq_ty(t[1])})"
    if t[0] == "dyn":
        return f"(TDyn {cq_str(t[1])})"
    if t[0] == "fn":
        return "TFn"
    if t[0] == "tuple":
        return "(TTuple [" + "; ".join(cq_ty(a) for a in t[1]) + "])"
    return f"(TOther {cq_str(t[1])})"


def inventory(repo=None):
    base = os.path.join(repo or REPO, ROOT)
    items = []
    for root, _, files in sorted(os.walk(base)):
        for f in sorted(files):
            if f.endswith(".rs"):
                p = os.path.join(root, f)
                rel = os.path.relpath(p, os.path.join(repo or REPO))
                with open(p, encoding="utf-8") as fh:
                    items += parse_items(rel, fh.read())
    return items


@generator("GenTrace")
def gen_trace():
    items = inventory()
    traced = [it for it in items if it["trace"]]
    skips = [(it["name"], f[0]) for it in traced for f in it["fields"] if f[1]]
    # self-checks: the anchors of the property must be recognised
    names = {it["name"] for it in traced}
    for need in ("ObjValueInner", "ObjMember", "WeakObjValue", "Context", "Val", "FuncVal", "LayeredHashMapInternals"):
        if need not in names and need != "LayeredHashMapInternals":
            raise TranslateError(f"derive(Trace) type `{need}` not found any more")
    if len(traced) < 40:
        raise TranslateError(f"only {len(traced)} derive(Trace) items recognised (expected >= 40)")
    if len(skips) < 5:
        raise TranslateError(f"only {len(skips)} #[trace(skip)] fields recognised (expected >= 5)")
    out = ["From Coq Require Import List String.", "From JrV Require Import C18.TraceTy.", "Import ListNotations.",
           "Open Scope string_scope.", "",
           f"(* {len(items)} items, {len(traced)} derive Trace, {len(skips)} skipped fields *)",
           "Definition trace_inventory : list tydef := ["]
    rows = []
    for it in items:
        fs = "; ".join(f"mkField {cq_str(n)} {'true' if sk else 'false'} {cq_ty(t)}" for n, sk, t in it["fields"])
        ps = "; ".join(cq_str(p) for p in it["params"])
        rows.append(f"  mkTyDef {cq_str(it['name'])} {cq_str(it['file'])} {'true' if it['trace'] else 'false'} "
                    f"[{ps}] [{fs}]")
    out.append(";\n".join(rows))
    out.append("].")
    return "\n".join(out) + "\n"
