"""GenIntern.v: the refcount / pool protocol of crates/jrsonnet-interner/src/{inner,lib}.rs translated
statement by statement into Gallina step functions over the state vocabulary of C18/Model.v
(primitive header reads/writes, the content-keyed pool map: C18/SourceVocab.v).

Translated functions (each statement list is walked in order; every statement must be one of the
recognised forms, anything else raises TranslateError = failed obligation):
  inner.rs  UTF8_MASK / REFCNT_MASK, InnerHeader::{new,refcnt,is_utf8,set_refcnt,set_is_utf8},
            Inner::{new_bytes,clone,check_utf8,assume_utf8,strong_count}, Drop for Inner (+ nested dealloc),
            impl Clone for Inner
  lib.rs    maybe_unpool (+ nested unpool), Drop for IStr / IBytes, intern_bytes, intern_str,
            IStr::cast_bytes, IBytes::cast_str, IBytes::cast_str_unchecked, derive(Clone) of IStr / IBytes
What is read: which header operation each statement performs and in which order, the arithmetic on
the count (`+ k` / `- k`, the constant), every comparison with its operator and constant (`== 0`,
`<= 2`), whether a branch frees / removes the pool entry / asserts, what each match arm of
intern_bytes does (clone the pooled key, insert a new allocation), which flag value new
allocations get, which of assume/check/clone/drop the conversions perform and in which order.
"""
import re

from gen import TranslateError, generator, src

CMP = {"==": "=?", "<=": "<=?", "<": "<?"}


def err(msg):
    raise TranslateError("interner: " + msg)


def clean(text):
    text = re.sub(r'("(?:[^"\\\n]|\\.)*")|//[^\n]*', lambda m: m.group(1) or "", text)
    text = re.sub(r"#!?\[(?!derive)[^\]]*\]", "", text)
    return text


def matching(text, i, what):
    """index of the brace closing the one at text[i]"""
    assert text[i] == "{"
    depth = 0
    instr = False
    j = i
    while j < len(text):
        c = text[j]
        if instr:
            if c == "\\":
                j += 1
            elif c == '"':
                instr = False
        elif c == '"':
            instr = True
        elif c == "{":
            depth += 1
        elif c == "}":
            depth -= 1
            if depth == 0:
                return j
        j += 1
    err(f"unbalanced braces in {what}")


def body_of(text, header_re, what):
    ms = list(re.finditer(header_re, text))
    if len(ms) != 1:
        err(f"{what}: expected exactly one definition, found {len(ms)}")
    i = text.index("{", ms[0].end() - 1)
    return text[i + 1:matching(text, i, what)]


def split_stmts(body, what):
    """-> list of (text, terminated_by_semicolon); brace/paren aware; block statements
    (if / fn / unsafe / match at statement start) end at their closing brace"""
    out = []
    s = body.strip()
    while s:
        depth = 0
        instr = False
        j = 0
        end = None
        blockish = re.match(r"(if|fn|unsafe|match)\b", s) is not None
        while j < len(s):
            c = s[j]
            if instr:
                if c == "\\":
                    j += 1
                elif c == '"':
                    instr = False
            elif c == '"':
                instr = True
            elif c in "({[":
                depth += 1
            elif c in ")}]":
                depth -= 1
                if depth < 0:
                    err(f"{what}: unbalanced")
                if depth == 0 and c == "}" and blockish:
                    rest = s[j + 1:].lstrip()
                    if rest.startswith("else") or (rest.startswith("{") and s.startswith("if")):
                        pass
                    elif rest.startswith(";"):
                        end = (j + 1, s.index(";", j + 1) + 1, True)
                        break
                    elif rest.startswith(".") or rest.startswith("?"):
                        blockish = False
                    else:
                        end = (j + 1, j + 1, False)
                        break
            elif c == ";" and depth == 0:
                end = (j, j + 1, True)
                break
            j += 1
        if end is None:
            out.append((s.strip(), False))
            break
        out.append((s[:end[0]].strip(), end[2]))
        s = s[end[1]:].strip()
    return out


def unwrap_unsafe(e):
    e = e.strip()
    m = re.fullmatch(r"unsafe\s*\{(.*)\}", e, re.S)
    if m and matching(e, e.index("{"), "unsafe block") == len(e) - 1:
        return m.group(1).strip()
    return None


def split_if(s, what):
    """`if COND { A } [else { B }]` -> (cond, A, B or None)"""
    m = re.match(r"if\s+", s)
    if not m:
        err(f"{what}: `if` expected: {s[:50]}")
    # the condition may itself contain an `unsafe { .. }` block: the body brace is the first `{` at depth 0
    # that is not preceded by `unsafe`
    j = m.end()
    depth = 0
    while j < len(s):
        c = s[j]
        if c in "([":
            depth += 1
        elif c in ")]":
            depth -= 1
        elif c == "{" and depth == 0:
            if re.search(r"unsafe\s*$", s[:j]):
                j = matching(s, j, what)
            else:
                break
        j += 1
    if j >= len(s):
        err(f"{what}: `if` without a block")
    cond = s[m.end():j].strip()
    k = matching(s, j, what)
    a = s[j + 1:k]
    rest = s[k + 1:].strip()
    if not rest:
        return cond, a, None
    m2 = re.match(r"else\s*\{", rest)
    if not m2:
        err(f"{what}: unexpected text after if-block: {rest[:40]}")
    k2 = matching(rest, m2.end() - 1, what)
    if rest[k2 + 1:].strip():
        err(f"{what}: unexpected text after else-block")
    return cond, a, rest[m2.end():k2]


# ------------------------------------------------------------------ inner.rs: header level
class HeaderFn:
    """functions of `impl Inner` working on `header` = the allocation at address a in heap h.
    Result kinds: 'heap' -> option heap; 'bool' -> option (heap * bool); 'N' -> option N."""

    def __init__(self, what, selfname, kind, dealloc_name=None, ctor_tail=False):
        self.what, self.selfname, self.kind = what, selfname, kind
        self.dealloc_name = dealloc_name
        self.ctor_tail = ctor_tail
        self.header_bound = False
        self.vars = set()

    def finish(self, tail):
        if self.kind == "heap":
            if tail is None:
                return "Some h"
            if self.ctor_tail and re.fullmatch(
                    rf"Self\s*\(\s*UnsafeCell::new\s*\(\s*\*\s*{self.selfname}\.0\.get\(\)\s*\)\s*\)", tail):
                return "Some h"
            err(f"{self.what}: unexpected result expression `{tail[:60]}`")
        if self.kind == "bool":
            if tail in ("true", "false"):
                return f"Some (h, {tail})"
            err(f"{self.what}: unexpected result expression `{tail}`")
        if self.kind == "N":
            if tail is not None and re.fullmatch(r"\(\*header\)\.refcnt\(\)", tail):
                self.need_header()
                return "hdr_refcnt h a"
            err(f"{self.what}: unexpected result expression `{tail}`")
        err("internal")

    def need_header(self):
        if not self.header_bound:
            err(f"{self.what}: `header` used before `let header = Self::header(..)`")

    def num_expr(self, e, k):
        """N-valued let right-hand side -> Gallina continuation taking the bound name"""
        e = e.strip()
        m = re.fullmatch(r"\(\*header\)\.refcnt\(\)\s*(?:([+-])\s*(\d+))?", e)
        if not m:
            err(f"{self.what}: untranslatable count expression `{e}`")
        self.need_header()
        return m.group(1), m.group(2)

    def seq(self, stmts, tail_allowed=True):
        """stmts: list of (text, semi). Returns the Gallina term for the rest of the function."""
        if not stmts:
            return self.finish(None)
        if len(stmts[0]) == 3 and stmts[0][0] == "__alias__":
            _, v, t = stmts[0]
            if t not in self.vars:
                err(f"{self.what}: block value `{t}` is not a bound count")
            self.vars.add(v)
            if v == t:
                return self.seq(stmts[1:])
            return f"let {v} := {t} in\n  {self.seq(stmts[1:])}"
        (s, semi), rest = stmts[0], stmts[1:]
        last = not rest
        # --- let header = Self::header_mut(this);
        m = re.fullmatch(rf"let\s+header\s*=\s*(?:Self|Inner)::header(?:_mut)?\(\s*{self.selfname}\s*\)", s)
        if m and semi:
            self.header_bound = True
            return self.seq(rest)
        # --- nested fn dealloc
        m = re.match(r"fn\s+(\w+)\s*\(\s*(\w+)\s*:\s*&Inner\s*\)\s*\{", s)
        if m and not semi:
            body = s[m.end():matching(s, m.end() - 1, self.what)]
            v = m.group(2)
            if not (re.search(rf"let\s+header\s*=\s*Inner::header_mut\(\s*{v}\s*\)", body)
                    and re.search(r"alloc::dealloc\(\s*header\.cast\(\)", body)):
                err(f"{self.what}: nested fn {m.group(1)} is not the deallocation of its argument")
            self.dealloc_name = m.group(1)
            return self.seq(rest)
        # --- unsafe { .. } as a statement or as the tail
        inner = unwrap_unsafe(s)
        if inner is not None:
            sub = split_stmts(inner, self.what)
            if semi and sub and not sub[-1][1]:
                sub[-1] = (sub[-1][0], True)        # `unsafe { e };` : value discarded
            if not semi and not last:
                err(f"{self.what}: block expression in the middle")
            return self.seq(sub + rest)
        # --- let V = unsafe { ...; V2 };   /  let V = <count expr>;
        m = re.fullmatch(r"let\s+(\w+)\s*=\s*(.+)", s, re.S)
        if m and semi:
            v, rhs = m.group(1), m.group(2).strip()
            inner = unwrap_unsafe(rhs)
            if inner is not None:
                sub = split_stmts(inner, self.what)
                if not sub or sub[-1][1]:
                    err(f"{self.what}: `let {v} = unsafe {{..}}` without a value")
                t = sub[-1][0]
                if not re.fullmatch(r"\w+", t):
                    sub = sub[:-1] + [(f"let {v} = {t}", True)]
                    return self.seq(sub + rest)
                sub = sub[:-1]
                # value of the block is the variable t
                marker = ("__alias__", v, t)
                return self.seq(sub + [marker] + rest)
            op, k = self.num_expr(rhs, None)
            self.vars.add(v)
            if op is None:
                return f"bind (hdr_refcnt h a) (fun {v} =>\n  {self.seq(rest)})"
            if op == "+":
                return (f"bind (hdr_refcnt h a) (fun {v}0 =>\n  let {v} := ({v}0 + {k})%N in\n  {self.seq(rest)})")
            return (f"bind (hdr_refcnt h a) (fun {v}0 =>\n  bind (checked_sub {v}0 {k}) (fun {v} =>\n  {self.seq(rest)}))")
        # --- (*header).set_refcnt(V)
        m = re.fullmatch(r"\(\*header\)\.set_refcnt\(\s*(\w+)\s*\)", s)
        if m and semi:
            self.need_header()
            if m.group(1) not in self.vars:
                err(f"{self.what}: set_refcnt of an unknown value `{m.group(1)}`")
            return f"bind (gen_set_refcnt h a {m.group(1)}) (fun h =>\n  {self.seq(rest)})"
        # --- (*header).set_is_utf8()
        if re.fullmatch(r"\(\*header\)\.set_is_utf8\(\)", s) and (semi or last):
            self.need_header()
            if not semi and self.kind != "heap":
                err(f"{self.what}: unit expression where a value is expected")
            return f"let h := gen_set_is_utf8 h a in\n  {self.seq(rest)}"
        # --- if ...
        if s.startswith("if ") or s.startswith("if("):
            cond, a_blk, b_blk = split_if(s, self.what)
            c_inner = unwrap_unsafe(cond) or cond
            # if (*header).is_utf8() { return true; }
            if re.fullmatch(r"\(\*header\)\.is_utf8\(\)", c_inner):
                self.need_header()
                if self.kind != "bool" or b_blk is not None:
                    err(f"{self.what}: unsupported use of is_utf8()")
                mr = re.fullmatch(r"return\s+(true|false)\s*;?", a_blk.strip())
                if not mr:
                    err(f"{self.what}: the cached-flag branch is not a `return <bool>`")
                return (f"bind (hdr_is_utf8 h a) (fun cached =>\n  if cached then Some (h, {mr.group(1)}) else\n  "
                        f"{self.seq(rest)})")
            # if str::from_utf8(this.as_slice()).is_ok() { A } else { B }   (tail)
            if re.fullmatch(rf"str::from_utf8\(\s*{self.selfname}\.as_slice\(\)\s*\)\.is_ok\(\)", c_inner):
                if self.kind != "bool" or b_blk is None or rest:
                    err(f"{self.what}: unsupported use of str::from_utf8")
                ta = self.seq(split_stmts(a_blk, self.what))
                tb = self.seq(split_stmts(b_blk, self.what))
                return (f"bind (hdr_data h a) (fun data =>\n  if valid_utf8 data then\n  {ta}\n  else\n  {tb})")
            # if V OP K { dealloc(self); }
            m = re.fullmatch(r"(\w+)\s*(==|<=|<)\s*(\d+)", c_inner)
            if m and m.group(1) in self.vars and b_blk is None and self.kind == "heap":
                sub = HeaderFn(self.what, self.selfname, "heap", self.dealloc_name)
                sub.header_bound, sub.vars = self.header_bound, set(self.vars)
                ta = sub.seq(split_stmts(a_blk, self.what))
                return (f"bind (if ({m.group(1)} {CMP[m.group(2)]} {m.group(3)})%N then\n  {ta}\n  else Some h) (fun h =>\n  "
                        f"{self.seq(rest)})")
            err(f"{self.what}: untranslatable condition `{cond[:60]}`")
        # --- dealloc(self);
        if self.dealloc_name and re.fullmatch(rf"{self.dealloc_name}\(\s*{self.selfname}\s*\)", s) and semi:
            return f"let h := heap_free h a in\n  {self.seq(rest)}"
        # --- tail expression
        if last and not semi:
            return self.finish(s)
        err(f"{self.what}: untranslatable statement `{s[:70]}`")


def header_fn(text, header_re, what, selfname, kind, ctor_tail=False):
    body = body_of(text, header_re, what)
    tr = HeaderFn(what, selfname, kind, ctor_tail=ctor_tail)
    return tr.seq(split_stmts(body, what))


def gen_inner(text):
    out = []
    # constants
    m = re.findall(r"const\s+UTF8_MASK\s*:\s*u32\s*=\s*1\s*<<\s*(\d+)\s*;", text)
    if len(m) != 1:
        err("UTF8_MASK is not `1 << k`")
    shift = int(m[0])
    if not re.search(r"const\s+REFCNT_MASK\s*:\s*u32\s*=\s*!\s*UTF8_MASK\s*;", text):
        err("REFCNT_MASK is not `!UTF8_MASK`")
    if not re.search(r"utf8_refcnt\s*:\s*u32\s*,", text):
        err("InnerHeader::utf8_refcnt is not u32")
    out.append("(* const UTF8_MASK: u32 = 1 << %d; REFCNT_MASK = !UTF8_MASK: counts live below the flag bit *)\n"
               "Definition gen_utf8_bit : N := %d%%N.\n"
               "Definition gen_refcnt_lim : N := N.shiftl 1 gen_utf8_bit.\n" % (shift, shift))
    # InnerHeader accessors: fixed shapes (the count is the masked low part, the flag the mask bit)
    b = body_of(text, r"const\s+fn\s+refcnt\s*\(&self\)\s*->\s*u32\s*\{", "InnerHeader::refcnt")
    if not re.fullmatch(r"\s*self\.utf8_refcnt\s*&\s*REFCNT_MASK\s*", b):
        err(f"InnerHeader::refcnt is not `utf8_refcnt & REFCNT_MASK`: `{b.strip()}`")
    b = body_of(text, r"const\s+fn\s+is_utf8\s*\(&self\)\s*->\s*bool\s*\{", "InnerHeader::is_utf8")
    if not re.fullmatch(r"\s*self\.utf8_refcnt\s*&\s*UTF8_MASK\s*!=\s*0\s*", b):
        err(f"InnerHeader::is_utf8 is not `utf8_refcnt & UTF8_MASK != 0`: `{b.strip()}`")
    b = body_of(text, r"fn\s+set_is_utf8\s*\(&mut self\)\s*\{", "InnerHeader::set_is_utf8")
    st = [s for s, _ in split_stmts(b, "set_is_utf8")]
    if st == ["self.utf8_refcnt |= UTF8_MASK"]:
        out.append("(* InnerHeader::set_is_utf8 *)\nDefinition gen_set_is_utf8 (h : heap) (a : N) : heap := hdr_write_utf8 h a.\n")
    elif st == []:
        out.append("(* InnerHeader::set_is_utf8: empty *)\nDefinition gen_set_is_utf8 (h : heap) (a : N) : heap := h.\n")
    else:
        err(f"InnerHeader::set_is_utf8: untranslatable `{b.strip()[:60]}`")
    # set_refcnt
    b = body_of(text, r"fn\s+set_refcnt\s*\(&mut self\s*,\s*cnt\s*:\s*u32\s*\)\s*\{", "InnerHeader::set_refcnt")
    st = [re.sub(r"\s+", " ", s) for s, _ in split_stmts(b, "set_refcnt")]
    guard = False
    if st and st[0] == "assert_eq!(cnt & UTF8_MASK, 0)":
        guard = True
        st = st[1:]
    if st != ["self.utf8_refcnt &= UTF8_MASK", "self.utf8_refcnt |= cnt"]:
        err(f"InnerHeader::set_refcnt: untranslatable statements {st}")
    out.append("(* InnerHeader::set_refcnt%s *)\n"
               "Definition gen_set_refcnt (h : heap) (a : N) (cnt : N) : option heap :=\n  %sSome (hdr_write_rc h a cnt).\n"
               % (" (asserts cnt & UTF8_MASK == 0)" if guard else " (NO overflow assertion)",
                  "if (gen_refcnt_lim <=? cnt)%N then None else " if guard else ""))
    # InnerHeader::new
    b = body_of(text, r"const\s+fn\s+new\s*\(\s*size\s*:\s*u32\s*,\s*is_utf8\s*:\s*bool\s*\)\s*->\s*Self\s*\{", "InnerHeader::new")
    m = re.fullmatch(r"\s*Self\s*\{\s*size\s*,\s*utf8_refcnt\s*:\s*(\d+)\s*\|\s*\(\s*if\s+is_utf8\s*\{\s*(UTF8_MASK|0)\s*\}\s*"
                     r"else\s*\{\s*(UTF8_MASK|0)\s*\}\s*\)\s*,?\s*\}\s*", b)
    if not m:
        err(f"InnerHeader::new: untranslatable `{re.sub(chr(92) + 's+', ' ', b.strip())[:90]}`")
    fl = {"UTF8_MASK": "true", "0": "false"}
    out.append("(* InnerHeader::new: initial count and flag *)\n"
               f"Definition gen_new_rc : N := {m.group(1)}%N.\n"
               f"Definition gen_new_utf8 (is_utf8 : bool) : bool := if is_utf8 then {fl[m.group(2)]} else {fl[m.group(3)]}.\n")
    # new_raw uses InnerHeader::new with its own flag and copies the bytes; new_bytes passes a literal flag
    b = body_of(text, r"unsafe\s+fn\s+new_raw\s*\(\s*bytes\s*:\s*&\[u8\]\s*,\s*is_utf8\s*:\s*bool\s*\)\s*->\s*Self\s*\{", "Inner::new_raw")
    if not re.search(r"\*data\s*=\s*InnerHeader::new\(\s*bytes\.len\(\)\.try_into\(\)\.expect\(\"[^\"]*\"\)\s*,\s*is_utf8\s*\)\s*;", b):
        err("Inner::new_raw does not initialise the header with InnerHeader::new(len, is_utf8)")
    if not re.search(r"ptr::copy_nonoverlapping\(\s*bytes\.as_ptr\(\)\s*,\s*data\.offset\(1\)\.cast::<u8>\(\)\s*,\s*bytes\.len\(\)\s*\)", b):
        err("Inner::new_raw does not copy the bytes behind the header")
    b = body_of(text, r"pub\s+fn\s+new_bytes\s*\(\s*bytes\s*:\s*&\[u8\]\s*\)\s*->\s*Self\s*\{", "Inner::new_bytes")
    m = re.fullmatch(r"\s*unsafe\s*\{\s*Self::new_raw\(\s*bytes\s*,\s*(true|false)\s*\)\s*\}\s*", b)
    if not m:
        err(f"Inner::new_bytes: untranslatable `{b.strip()[:60]}`")
    out.append(f"(* Inner::new_bytes *)\nDefinition gen_new_bytes_flag : bool := {m.group(1)}.\n")
    # as_slice: header.size bytes right behind the header
    b = body_of(text, r"pub\s+fn\s+as_slice\s*\(&self\)\s*->\s*&\[u8\]\s*\{", "Inner::as_slice")
    if not (re.search(r"let\s+size\s*=\s*unsafe\s*\{\s*\(\*header\)\.size\s*\}\s*;", b)
            and re.search(r"slice::from_raw_parts\(\s*\(\*self\.0\.get\(\)\)\.as_ptr\(\)\.offset\(1\)\.cast::<u8>\(\)\s*,\s*size as usize\s*,?\s*\)", b)):
        err("Inner::as_slice is not the `size` bytes behind the header")
    # clone / drop / check_utf8 / assume_utf8 / strong_count
    t = header_fn(text, r"\n\tfn\s+clone\s*\(\s*this\s*:\s*&Self\s*\)\s*->\s*Self\s*\{", "Inner::clone", "this", "heap", ctor_tail=True)
    out.append(f"(* Inner::clone *)\nDefinition gen_inner_clone (h : heap) (a : N) : option heap :=\n  {t}.\n")
    b = body_of(text, r"impl\s+Clone\s+for\s+Inner\s*\{", "impl Clone for Inner")
    if not re.fullmatch(r"\s*fn\s+clone\s*\(&self\)\s*->\s*Self\s*\{\s*Self::clone\(self\)\s*\}\s*", b):
        err("impl Clone for Inner is not Self::clone(self)")
    t = header_fn(text, r"impl\s+Drop\s+for\s+Inner\s*\{\s*fn\s+drop\s*\(&mut self\)\s*\{", "Drop for Inner", "self", "heap")
    out.append(f"(* Drop for Inner *)\nDefinition gen_inner_drop (h : heap) (a : N) : option heap :=\n  {t}.\n")
    t = header_fn(text, r"pub\s+fn\s+check_utf8\s*\(\s*this\s*:\s*&Self\s*\)\s*->\s*bool\s*\{", "Inner::check_utf8", "this", "bool")
    out.append(f"(* Inner::check_utf8 *)\nDefinition gen_check_utf8 (h : heap) (a : N) : option (heap * bool) :=\n  {t}.\n")
    t = header_fn(text, r"pub\s+unsafe\s+fn\s+assume_utf8\s*\(\s*this\s*:\s*&Self\s*\)\s*\{", "Inner::assume_utf8", "this", "heap")
    out.append(f"(* Inner::assume_utf8 *)\nDefinition gen_assume_utf8 (h : heap) (a : N) : option heap :=\n  {t}.\n")
    t = header_fn(text, r"pub\s+fn\s+strong_count\s*\(\s*this\s*:\s*&Self\s*\)\s*->\s*u32\s*\{", "Inner::strong_count", "this", "N")
    out.append(f"(* Inner::strong_count *)\nDefinition gen_strong_count (h : heap) (a : N) : option N :=\n  {t}.\n")
    return out


# ------------------------------------------------------------------ lib.rs: handle level
def lib_seq(stmts, what, arg, have_unpool):
    """statement lists of maybe_unpool / unpool / Drop for IStr|IBytes -> option heap"""
    if not stmts:
        return "Some h"
    (s, semi), rest = stmts[0], stmts[1:]
    s1 = re.sub(r"\s+", " ", s)
    if re.fullmatch(rf"maybe_unpool\(\s*&{arg}\s*\)", s1) and semi:
        return f"bind (gen_maybe_unpool h a) (fun h =>\n  {lib_seq(rest, what, arg, have_unpool)})"
    if have_unpool and re.fullmatch(rf"unpool\(\s*{arg}\s*\)", s1) and semi:
        return f"bind (gen_unpool h a) (fun h =>\n  {lib_seq(rest, what, arg, have_unpool)})"
    if s.startswith("if "):
        cond, a_blk, b_blk = split_if(s, what)
        m = re.fullmatch(rf"Inner::strong_count\(\s*{arg}\s*\)\s*(==|<=|<)\s*(\d+)", cond)
        if m and b_blk is None:
            ta = lib_seq(split_stmts(a_blk, what), what, arg, have_unpool)
            return (f"bind (gen_strong_count h a) (fun count =>\n  bind (if (count {CMP[m.group(1)]} {m.group(2)})%N then\n  {ta}\n  "
                    f"else Some h) (fun h =>\n  {lib_seq(rest, what, arg, have_unpool)}))")
        m = re.fullmatch(rf"pool\.remove\(\s*{arg}\s*\)\.is_none\(\)", cond)
        if m and b_blk is None and not rest:
            st = split_stmts(a_blk, what)
            if not st:
                none_t = "Some h"
            elif len(st) == 1 and st[0][1] and re.fullmatch(r'assert!\(\s*pool\.is_empty\(\)\s*(,\s*"(?:[^"\\]|\\.)*"\s*)?\)', st[0][0], re.S):
                none_t = "(if pool_is_empty h then Some h else None)"
            else:
                err(f"{what}: untranslatable body of the not-in-pool branch")
            return ("bind (hdr_data h a) (fun key =>\n  match pool_remove h key with\n"
                    "  | Some (h, k) => (* the removed key (one reference) is dropped *) gen_inner_drop h k\n"
                    f"  | None => {none_t}\n  end)")
        err(f"{what}: untranslatable condition `{cond[:60]}`")
    if re.fullmatch(rf"pool\.remove\(\s*{arg}\s*\)", s1) and semi:
        return ("bind (hdr_data h a) (fun key =>\n  bind (match pool_remove h key with\n"
                "  | Some (h, k) => gen_inner_drop h k\n  | None => Some h\n  end) (fun h =>\n  "
                f"{lib_seq(rest, what, arg, have_unpool)}))")
    if re.fullmatch(r"let mut pool = pool\.borrow_mut\(\)", s1) and semi:
        return lib_seq(rest, what, arg, have_unpool)
    err(f"{what}: untranslatable statement `{s1[:70]}`")


def gen_lib(text):
    out = []
    # thread-local pool keyed by Inner (whose Hash/Eq/Borrow<[u8]> go through the slice: checked in inner.rs below)
    if not re.search(r"type\s+PoolMap\s*=\s*HashMap<\s*Inner\s*,\s*\(\)\s*,\s*FxBuildHasher\s*>\s*;", text):
        err("PoolMap is not HashMap<Inner, (), FxBuildHasher>")
    if not re.search(r"thread_local!\s*\{\s*static\s+POOL\s*:\s*RefCell<PoolMap>", text):
        err("POOL is not a thread-local RefCell<PoolMap>")
    # maybe_unpool with nested unpool
    body = body_of(text, r"\nfn\s+maybe_unpool\s*\(\s*inner\s*:\s*&Inner\s*\)\s*\{", "maybe_unpool")
    stmts = split_stmts(body, "maybe_unpool")
    have_unpool = False
    if stmts and re.match(r"fn\s+unpool\s*\(\s*inner\s*:\s*&Inner\s*\)\s*\{", stmts[0][0]):
        s = stmts[0][0]
        i = s.index("{")
        ub = s[i + 1:matching(s, i, "unpool")]
        ust = split_stmts(ub, "unpool")
        if len(ust) != 1 or not ust[0][1]:
            err("unpool: expected the single statement `let _ = POOL.try_with(|pool| {..});`")
        m = re.fullmatch(r"let\s+_\s*=\s*POOL\.try_with\(\s*\|pool\|\s*\{(.*)\}\s*\)", ust[0][0], re.S)
        if not m:
            err("unpool: expected `let _ = POOL.try_with(|pool| {..});`")
        t = lib_seq(split_stmts(m.group(1), "unpool"), "unpool", "inner", False)
        out.append(f"(* maybe_unpool::unpool *)\nDefinition gen_unpool (h : heap) (a : N) : option heap :=\n  {t}.\n")
        have_unpool = True
        stmts = stmts[1:]
    t = lib_seq(stmts, "maybe_unpool", "inner", have_unpool)
    out.append(f"(* maybe_unpool *)\nDefinition gen_maybe_unpool (h : heap) (a : N) : option heap :=\n  {t}.\n")
    # Drop for IStr / IBytes: the statements, then the field `self.0: Inner` is dropped (Rust drop glue)
    for ty, nm in (("IStr", "str"), ("IBytes", "bytes")):
        if not re.search(rf"pub\s+struct\s+{ty}\s*\(\s*Inner\s*\)\s*;", text):
            err(f"{ty} is not a newtype of Inner")
        body = body_of(text, rf"impl\s+Drop\s+for\s+{ty}\s*\{{\s*fn\s+drop\s*\(&mut self\)\s*\{{", f"Drop for {ty}")
        t = lib_seq(split_stmts(body, f"Drop for {ty}"), f"Drop for {ty}", r"self\.0", False)
        out.append(f"(* Drop for {ty}, then the drop glue of the field *)\n"
                   f"Definition gen_handle_drop_{nm} (h : heap) (a : N) : option heap :=\n  bind ({t}) (fun h =>\n  gen_inner_drop h a).\n")
        m = re.findall(rf"#\[derive\(([^)]*)\)\]\s*pub\s+struct\s+{ty}\b", text)
        if len(m) != 1 or "Clone" not in [x.strip() for x in m[0].split(",")]:
            err(f"{ty} does not derive Clone")
        if re.search(rf"impl\s+Clone\s+for\s+{ty}\b", text):
            err(f"{ty} has a hand-written Clone")
        out.append(f"(* derive(Clone) for {ty}: clones the field *)\n"
                   f"Definition gen_handle_clone_{nm} (h : heap) (a : N) : option heap := gen_inner_clone h a.\n")
    # intern_bytes
    body = body_of(text, r"pub\s+fn\s+intern_bytes\s*\(\s*bytes\s*:\s*&\[u8\]\s*\)\s*->\s*IBytes\s*\{", "intern_bytes")
    m = re.fullmatch(r"\s*POOL\.with\(\s*\|pool\|\s*\{(.*)\}\s*\)\s*", body, re.S)
    if not m:
        err("intern_bytes is not `POOL.with(|pool| {..})`")
    st = split_stmts(m.group(1), "intern_bytes")
    flat = [re.sub(r"\s+", " ", s) for s, _ in st]
    if len(st) != 3 or flat[0] != "let mut pool = pool.borrow_mut()" or \
            flat[1] != "let entry = pool.raw_entry_mut().from_key(bytes)" or not flat[2].startswith("match entry {"):
        err(f"intern_bytes: expected borrow_mut / raw_entry_mut().from_key(bytes) / match entry, got {flat[:2]}")
    ms = st[2][0]
    i = ms.index("{")
    arms_text = ms[i + 1:matching(ms, i, "intern_bytes")]
    arms = {}
    rest = arms_text.strip()
    while rest:
        ma = re.match(r"RawEntryMut::(Occupied|Vacant)\(\s*(\w+)\s*\)\s*=>\s*", rest)
        if not ma:
            err(f"intern_bytes: untranslatable match arm `{rest[:50]}`")
        r2 = rest[ma.end():]
        if r2.startswith("{"):
            k = matching(r2, 0, "intern_bytes arm")
            arm_body, rest = r2[1:k], r2[k + 1:].lstrip().lstrip(",").strip()
        else:
            depth, k = 0, 0
            while k < len(r2) and not (r2[k] == "," and depth == 0):
                depth += {"(": 1, ")": -1}.get(r2[k], 0)
                k += 1
            arm_body, rest = r2[:k], r2[k + 1:].strip()
        if ma.group(1) in arms:
            err("intern_bytes: duplicate arm")
        arms[ma.group(1)] = (ma.group(2), arm_body)
    if set(arms) != {"Occupied", "Vacant"}:
        err("intern_bytes: arms are not Occupied + Vacant")

    def arm(kind, var, abody):
        sts = split_stmts(abody, "intern_bytes arm")
        keyvar = None       # rust name of a `&Inner` now in the map; Gallina: k
        pre = ""
        for s, semi in sts[:-1]:
            s1 = re.sub(r"\s+", " ", s)
            mi = re.fullmatch(rf"let \((\w+), \(\)\) = {var}\.insert\(Inner::new_bytes\(bytes\), \(\)\)", s1)
            if mi and semi and kind == "Vacant" and keyvar is None:
                keyvar = mi.group(1)
                pre += ("let k := next in\n    let h := heap_alloc h next c gen_new_rc (gen_new_utf8 gen_new_bytes_flag) true in\n"
                        "    let next := (next + 1)%N in\n    ")
                continue
            err(f"intern_bytes: untranslatable statement `{s1[:70]}` in the {kind} arm")
        if not sts or sts[-1][1]:
            err(f"intern_bytes: the {kind} arm has no value")
        tail = re.sub(r"\s+", " ", sts[-1][0])
        mt = re.fullmatch(r"IBytes\((.+)\)", tail)
        if not mt:
            err(f"intern_bytes: the {kind} arm does not build an IBytes: `{tail[:60]}`")
        e = mt.group(1).strip()
        if kind == "Occupied" and e in (f"{var}.get_key_value().0.clone()", f"{var}.key().clone()"):
            return pre + "bind (gen_inner_clone h k) (fun h => Some (h, next, k))"
        if keyvar and e == f"{keyvar}.clone()":
            return pre + "bind (gen_inner_clone h k) (fun h => Some (h, next, k))"
        if e == "Inner::new_bytes(bytes)":
            return pre + ("(* a fresh allocation that is NOT in the pool *)\n    Some (heap_alloc h next c gen_new_rc "
                          "(gen_new_utf8 gen_new_bytes_flag) false, (next + 1)%N, next)")
        err(f"intern_bytes: untranslatable handle expression `{e[:60]}` in the {kind} arm")

    occ = arm("Occupied", *arms["Occupied"])
    vac = arm("Vacant", *arms["Vacant"])
    out.append("(* intern_bytes: (heap, allocator, address of the returned handle) *)\n"
               "Definition gen_intern_bytes (h : heap) (next : N) (c : bytes) : option (heap * N * N) :=\n"
               "  match pool_lookup h c with\n"
               f"  | Some k => (* RawEntryMut::Occupied *)\n    {occ}\n"
               f"  | None => (* RawEntryMut::Vacant *)\n    {vac}\n  end.\n")

    # conversions: value expression `Ty(self.0.clone())` consumes self -> clone, then Drop of self
    def conv_tail(e, what, from_nm):
        e = re.sub(r"\s+", " ", e.strip())
        if not re.fullmatch(r"(IStr|IBytes)\(self\.0\.clone\(\)\)", e):
            err(f"{what}: untranslatable result `{e[:60]}`")
        return f"bind (gen_inner_clone h a) (fun h =>\n  (* self is dropped *) gen_handle_drop_{from_nm} h a)"

    body = body_of(text, r"pub\s+fn\s+cast_bytes\s*\(self\)\s*->\s*IBytes\s*\{", "IStr::cast_bytes")
    st = split_stmts(body, "cast_bytes")
    if len(st) != 1 or st[0][1]:
        err("IStr::cast_bytes: expected a single expression")
    out.append("(* IStr::cast_bytes *)\nDefinition gen_cast_bytes (h : heap) (a : N) : option heap :=\n  "
               f"{conv_tail(st[0][0], 'IStr::cast_bytes', 'str')}.\n")
    body = body_of(text, r"unsafe\s+fn\s+cast_str_unchecked\s*\(self\)\s*->\s*IStr\s*\{", "IBytes::cast_str_unchecked")
    st = split_stmts(body, "cast_str_unchecked")
    t = None
    pre = ""
    for s, semi in st[:-1]:
        s1 = re.sub(r"\s+", " ", s)
        if s1 == "unsafe { Inner::assume_utf8(&self.0) }" and semi:
            pre += "bind (gen_assume_utf8 h a) (fun h =>\n  "
        else:
            err(f"IBytes::cast_str_unchecked: untranslatable statement `{s1[:60]}`")
    if not st or st[-1][1]:
        err("IBytes::cast_str_unchecked: no result expression")
    t = pre + conv_tail(st[-1][0], "IBytes::cast_str_unchecked", "bytes") + ")" * pre.count("bind (gen_assume_utf8")
    out.append(f"(* IBytes::cast_str_unchecked *)\nDefinition gen_cast_str_unchecked (h : heap) (a : N) : option heap :=\n  {t}.\n")
    body = body_of(text, r"pub\s+fn\s+cast_str\s*\(self\)\s*->\s*Option<IStr>\s*\{", "IBytes::cast_str")
    st = split_stmts(body, "cast_str")
    if len(st) != 1 or st[0][1]:
        err("IBytes::cast_str: expected a single if/else expression")
    cond, a_blk, b_blk = split_if(st[0][0], "IBytes::cast_str")
    if not re.fullmatch(r"Inner::check_utf8\(\s*&self\.0\s*\)", cond) or b_blk is None:
        err(f"IBytes::cast_str: untranslatable condition `{cond[:60]}`")

    def opt_branch(blk):
        e = re.sub(r"\s+", " ", blk.strip())
        if e == "None":
            return "bind (gen_handle_drop_bytes h a) (fun h => Some (h, false))"
        mo = re.fullmatch(r"Some\((.+)\)", e)
        if not mo:
            err(f"IBytes::cast_str: untranslatable branch `{e[:60]}`")
        return f"bind ({conv_tail(mo.group(1), 'IBytes::cast_str', 'bytes')}) (fun h => Some (h, true))"

    out.append("(* IBytes::cast_str: (heap, is the result Some) *)\n"
               "Definition gen_cast_str (h : heap) (a : N) : option (heap * bool) :=\n"
               "  bind (gen_check_utf8 h a) (fun hb => let h := fst hb in\n"
               f"  if snd hb then\n  {opt_branch(a_blk)}\n  else\n  {opt_branch(b_blk)}).\n")
    body = body_of(text, r"pub\s+fn\s+intern_str\s*\(\s*str\s*:\s*&str\s*\)\s*->\s*IStr\s*\{", "intern_str")
    if not re.fullmatch(r"\s*unsafe\s*\{\s*intern_bytes\(\s*str\.as_bytes\(\)\s*\)\.cast_str_unchecked\(\)\s*\}\s*", body):
        err(f"intern_str: untranslatable `{body.strip()[:70]}`")
    out.append("(* intern_str *)\n"
               "Definition gen_intern_str (h : heap) (next : N) (c : bytes) : option (heap * N * N) :=\n"
               "  bind (gen_intern_bytes h next c) (fun r => let h := fst (fst r) in let a := snd r in\n"
               "  bind (gen_cast_str_unchecked h a) (fun h => Some (h, snd (fst r), a))).\n")
    return out


def check_keying(text):
    """Hash / Eq / Borrow<[u8]> of Inner go through the bytes: the pool is content-keyed"""
    b = body_of(text, r"impl\s+Hash\s+for\s+Inner\s*\{", "impl Hash for Inner")
    if not re.search(r"self\.as_slice\(\)\.hash\(state\)\s*;", b):
        err("Hash for Inner does not hash the slice")
    b = body_of(text, r"impl\s+PartialEq\s+for\s+Inner\s*\{", "impl PartialEq for Inner")
    if not re.search(r"Self::as_ptr\(self\)\s*==\s*Self::as_ptr\(other\)\s*\|\|\s*self\.as_slice\(\)\.eq\(other\.as_slice\(\)\)", b):
        err("PartialEq for Inner is not pointer-or-slice equality")
    b = body_of(text, r"impl\s+Borrow<\[u8\]>\s+for\s+Inner\s*\{", "impl Borrow<[u8]> for Inner")
    if not re.search(r"\{\s*self\.as_slice\(\)\s*\}", b):
        err("Borrow<[u8]> for Inner is not as_slice")


@generator("GenIntern")
def gen_intern():
    inner = clean(src("crates/jrsonnet-interner/src/inner.rs"))
    lib = clean(src("crates/jrsonnet-interner/src/lib.rs"))
    check_keying(inner)
    parts = gen_inner(inner) + gen_lib(lib)
    return ("From Coq Require Import List NArith Bool.\n"
            "From JrV Require Import C18.Model C18.SourceVocab.\n"
            "Import ListNotations.\n"
            "(* state: Model.heap (allocations {addr, bytes, count, utf8 flag, pooled}); a = address of the\n"
            "   Inner a function works on; None = crash (dangling read, overflow-checked `-`, failed assert) *)\n\n"
            + "\n".join(parts))
