"""GenNum.v (C09): the constants and the shape of the numeric kernel the C09 model mentions,
read from evaluate/operator.rs and val.rs.  Fail closed: an unrecognised shape is a
translator error (= broken obligation)."""
import re

from gen import TranslateError, generator, one, src


def _arm(text, head, what):
    """body of the match arm `(Num(v1), <head>, Num(v2)) => { ... }` of evaluate_binary_op_normal"""
    m = re.search(r"\(Num\(v1\), " + head + r", Num\(v2\)\) => \{(.*?)\n\t\t\}", text, re.S)
    if not m:
        raise TranslateError(f"{what}: match arm not found")
    return m.group(1)


@generator("GenNum")
def gen_num():
    op = src("crates/jrsonnet-evaluator/src/evaluate/operator.rs")
    val = src("crates/jrsonnet-evaluator/src/val.rs")

    # ---- left shift
    lhs = _arm(op, "Lhs", "left shift")
    one(r"if v2\.get\(\) < 0\.0 \{\s*bail!", lhs, "<< negative-count guard")
    one(r"let base = v1\.truncate_for_bitwise\(\)\?;", lhs, "<< base conversion")
    shl_mod = int(one(r"let exp = v2\.truncate_for_bitwise\(\)\? % (\d+);", lhs, "<< count reduction"))
    g = one(r"if exp >= (\d+) && base >= \(1i64 << \((\d+) - exp as u32\)\) \{\s*bail!", lhs, "<< overflow guard")
    shl_min, shl_bits = int(g[0]), int(g[1])
    one(r"Val::try_num\(base\.wrapping_shl\(exp as u32\) as f64\)\?", lhs, "<< result")

    # ---- right shift
    rhs = _arm(op, "Rhs", "right shift")
    one(r"if v2\.get\(\) < 0\.0 \{\s*bail!", rhs, ">> negative-count guard")
    if re.search(r"let exp = \(\(v2\.get\(\) as i64\) & (\d+)\) as u32;", rhs):
        shr_mask = int(one(r"let exp = \(\(v2\.get\(\) as i64\) & (\d+)\) as u32;", rhs, ">> count mask"))
        shr_checked = "false"
    else:
        shr_mask = int(one(r"let exp = \(v2\.truncate_for_bitwise\(\)\? & (\d+)\) as u32;", rhs,
                           ">> count mask (range-checked form)"))
        shr_checked = "true"
    one(r"Val::try_num\(v1\.truncate_for_bitwise\(\)\?\.wrapping_shr\(exp\) as f64\)\?", rhs, ">> result")

    # ---- & | ^
    for name, sym in (("BitAnd", "&"), ("BitOr", r"\|"), ("BitXor", r"\^")):
        arm = _arm(op, name, name)
        one(r"Val::try_num\(\(v1\.truncate_for_bitwise\(\)\? " + sym + r" v2\.truncate_for_bitwise\(\)\?\) as f64\)\?",
            arm, name + " body")

    # ---- ~
    if re.search(r"\(BitNot, Num\(n\)\) => Val::try_num\(!\(n\.get\(\) as i64\) as f64\)\?,", op):
        bitnot_checked = "false"
    else:
        one(r"\(BitNot, Num\(n\)\) => Val::try_num\(!n\.truncate_for_bitwise\(\)\? as f64\)\?,", op,
            "~ (range-checked form)")
        bitnot_checked = "true"
    one(r"\(Minus, Num\(n\)\) => Val::try_num\(-n\.get\(\)\)\?,", op, "unary minus")

    # ---- arithmetic through try_num, division guard
    for sym, what in ((r"\+", "add"), ("-", "sub"), (r"\*", "mul")):
        one(r"\(Num\(v1\), Num\(v2\)\) => Val::try_num\(v1\.get\(\) " + sym + r" v2\.get\(\)\)\?,", op, what)
    for sym, what in (("/", "div"), ("%", "mod")):
        one(r"\(Num\(a\), Num\(b\)\) => Val::try_num\(a\.get\(\) " + sym + r" b\.get\(\)\)\?,", op, what)
    one(r"\(_, Num\(b\)\) => \*\*b == 0\.,", op, "division-by-zero guard")
    if len(re.findall(r"if is_attempt_to_divide_by_zero\(a, b\) \{\s*bail!\(DivisionByZero\);", op)) != 2:
        raise TranslateError("division-by-zero guard must be applied in evaluate_div_op and evaluate_mod_op")

    # ---- truncate_for_bitwise, NumValue::new, cmp
    one(r"if self\.0 < MIN_SAFE_INTEGER \|\| self\.0 > MAX_SAFE_INTEGER \{\s*bail!", val, "truncate_for_bitwise range")
    one(r"pub fn new\(v: f64\) -> Option<Self> \{\s*if !v\.is_finite\(\) \{\s*return None;\s*\}\s*Some\(Self\(v\)\)", val,
        "NumValue::new")
    one(r"unsafe \{ self\.0\.partial_cmp\(&other\.0\)\.unwrap_unchecked\(\) \}", val, "Ord for NumValue")

    # ---- numeric equality
    if re.search(r"\(Val::Num\(a\), Val::Num\(b\)\) => \(a\.get\(\) - b\.get\(\)\)\.abs\(\) <= f64::EPSILON,", val):
        eq_eps = "true"
    else:
        one(r"\(Val::Num\(a\), Val::Num\(b\)\) => (?:a\.get\(\) == b\.get\(\)|a == b),", val,
            "numeric equality (exact form)")
        eq_eps = "false"

    return (
        "From Coq Require Import ZArith Bool.\n"
        "(* evaluate/operator.rs, `<<`: count reduced `% shl_count_modulus`; rejected when\n"
        "   `exp >= shl_guard_min_exp && base >= 1 << (shl_guard_bits - exp)` *)\n"
        f"Definition shl_count_modulus : Z := {shl_mod}%Z.\n"
        f"Definition shl_guard_min_exp : Z := {shl_min}%Z.\n"
        f"Definition shl_guard_bits : Z := {shl_bits}%Z.\n"
        "(* `>>`: count is `(v2 as i64) & shr_count_mask`; shr_count_checked = the count goes\n"
        "   through truncate_for_bitwise (safe-integer range check) *)\n"
        f"Definition shr_count_mask : Z := {shr_mask}%Z.\n"
        f"Definition shr_count_checked : bool := {shr_checked}.\n"
        "(* `~`: operand goes through truncate_for_bitwise *)\n"
        f"Definition bitnot_checked : bool := {bitnot_checked}.\n"
        "(* val.rs primitive_equals on numbers: true = `(a - b).abs() <= f64::EPSILON`, false = `a == b` *)\n"
        f"Definition num_eq_epsilon : bool := {eq_eps}.\n"
    )
