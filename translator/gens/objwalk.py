"""GenObj.v: the object walks of crates/jrsonnet-evaluator/src/obj/mod.rs, translated statement by
statement into Gallina over the layer vocabulary of C02/Model.v (C02 source tie).

Translated functions (impl ObjValue):
  get_idx_uncached              -> gen_get_after, gen_get_loop, gen_get_idx_walk
  has_field_include_hidden_idx  -> gen_has_after, gen_has_loop, gen_has_field_include_hidden_idx
  field_visibility_idx          -> gen_vis_after, gen_vis_loop, gen_field_visibility_idx
  fields_visibility             -> gen_fv_default, gen_fv_step, gen_fv_next, gen_fv_loop, gen_fields_visibility
  extend_from                   -> gen_extend_from            (order of the two `cores.extend(..)`)
and from obj/oop.rs  ObjValueBuilder::with_fields_omitted -> gen_with_fields_omitted.

How: the function body is parsed (tokeniser + recursive-descent parser for the subset of Rust these
functions use) into statements; the statements are then executed symbolically in continuation style:
    `x = e;` `x -= e;` `x += e;` `x.push(e);` `x.insert(0, e);` `let x = e;`   ->  let x := e' in <rest>
    `if c { A } [else { B }] rest`   ->  if c' then <A; rest> else <B; rest>
    `match s { P [if g] => A, .. } rest`  ->  match s' with P' => [if g' then] <A; rest> [else <later arms>] .. end
    `return e;` -> e'        `break;` -> the code after the loop       end of loop body -> recursive call
    `for PAT in self.0.cores[..core.idx].iter()[.enumerate()].rev()`  -> Fixpoint over the (reversed) prefix
    `let Some(x) = e else { B };` -> match e' with Some x => <rest> | None => <B> end
    `e?` on a core call -> bind;  `.expect(..)` -> match .. | None => Err EInternal (panic)
Operators are translated one to one: Saturating `+` -> sat_add, `-=` -> g_sat_sub, `.max` -> N.max, `.min` ->
N.min, `==`/`!=`/`<=`/`<` on counters -> N.eqb/negb N.eqb/N.leb/N.ltb, `&&` -> andb, `.rev()` -> rev,
`.try_fold(i, |a, b| evaluate_add_op(&a, &b))` -> try_fold (fun a b => add a b) i.
Every token, statement, pattern, method or path that is not in these tables raises TranslateError
(fail closed).  Nothing about WHAT the functions compute is fixed text: swapping `max` for an assignment,
dropping `.rev()`, reordering arms or guards changes the emitted term, and C02/ProofsSource.v (translated =
hand model, for all inputs) then no longer compiles.
"""
import re

from gen import TranslateError, generator, src

MOD = "crates/jrsonnet-evaluator/src/obj/mod.rs"
OOP = "crates/jrsonnet-evaluator/src/obj/oop.rs"


def err(msg):
    raise TranslateError("objwalk: " + msg)


# ---------------------------------------------------------------- tokeniser
TOK = re.compile(r"""\s*(?:
    (?P<id>[A-Za-z_]\w*) |
    (?P<num>\d+)(?:usize|u32|u64|i32)? |
    (?P<str>"(?:[^"\\]|\\.)*") |
    (?P<op>::|=>|==|!=|<=|>=|&&|\|\||-=|\+=|\.\.|->|[{}()\[\].,;:=<>+\-!&|@?*#'])
)""", re.X)


def strip_comments(text):
    text = re.sub(r"/\*.*?\*/", " ", text, flags=re.S)
    return re.sub(r"//[^\n]*", "", text)


def tokenize(text, what):
    text = strip_comments(text)
    out, pos = [], 0
    text = text.rstrip()
    while pos < len(text):
        m = TOK.match(text, pos)
        if not m or m.end() == pos:
            err(f"{what}: cannot tokenise at `{text[pos:pos + 30]}`")
        pos = m.end()
        if m.group("id"):
            out.append(("id", m.group("id")))
        elif m.group("num") is not None:
            out.append(("num", m.group("num")))
        elif m.group("str"):
            out.append(("str", m.group("str")))
        else:
            out.append(("op", m.group("op")))
    return out


def fn_body(text, header_re, what):
    text = strip_comments(text)
    ms = list(re.finditer(header_re, text))
    if len(ms) != 1:
        err(f"{what}: expected exactly one header /{header_re}/, found {len(ms)}")
    i = text.index("{", ms[0].end() - 1)
    depth = 0
    for j in range(i, len(text)):
        if text[j] == "{":
            depth += 1
        elif text[j] == "}":
            depth -= 1
            if depth == 0:
                return text[i + 1:j]
    err(f"{what}: unbalanced braces")


# ---------------------------------------------------------------- parser
class P:
    def __init__(self, toks, what):
        self.t, self.i, self.what = toks, 0, what

    def peek(self, k=0):
        return self.t[self.i + k] if self.i + k < len(self.t) else ("eof", "")

    def at(self, v, k=0):
        return self.peek(k)[1] == v and self.peek(k)[0] in ("op", "id")

    def eat(self, v):
        if not self.at(v):
            err(f"{self.what}: `{v}` expected, found `{self.peek()[1]}` (token {self.i})")
        self.i += 1

    def ident(self):
        k, v = self.peek()
        if k != "id":
            err(f"{self.what}: identifier expected, found `{v}`")
        self.i += 1
        return v

    def done(self):
        return self.i >= len(self.t)

    # ---- statements
    def block(self):
        self.eat("{")
        out = self.stmts()
        self.eat("}")
        return out

    def stmts(self):
        out = []
        while not self.done() and not self.at("}"):
            out.append(self.stmt())
        return out

    def stmt(self):
        if self.at("let"):
            self.i += 1
            pat = self.pattern()
            if self.at(":"):
                self.i += 1
                self.skip_type()
            self.eat("=")
            e = self.expr()
            els = None
            if self.at("else"):
                self.i += 1
                els = self.block()
            self.eat(";")
            return ("let", pat, e, els)
        if self.at("return"):
            self.i += 1
            e = None if self.at(";") else self.expr()
            self.eat(";")
            return ("return", e)
        if self.at("break"):
            self.i += 1
            self.eat(";")
            return ("break",)
        if self.at("if"):
            return self.if_stmt()
        if self.at("for"):
            self.i += 1
            pat = self.pattern()
            self.eat("in")
            it = self.expr(no_struct=True)
            return ("for", pat, it, self.block())
        if self.at("match"):
            m = self.match_expr()
            if self.at(";"):
                self.i += 1
            return ("matchs", m[1], m[2])
        e = self.expr()
        for op in ("=", "-=", "+="):
            if self.at(op):
                self.i += 1
                r = self.expr()
                self.eat(";")
                return ("assign", e, op, r)
        if self.at(";"):
            self.i += 1
            return ("expr", e)
        if self.at("}") or self.done():
            return ("final", e)
        err(f"{self.what}: `;` expected after expression, found `{self.peek()[1]}`")

    def if_stmt(self):
        self.eat("if")
        c = self.expr(no_struct=True)
        th = self.block()
        el = None
        if self.at("else"):
            self.i += 1
            el = [self.if_stmt()] if self.at("if") else self.block()
        return ("if", c, th, el)

    def skip_type(self):
        depth = 0
        while True:
            k, v = self.peek()
            if k == "eof":
                err(f"{self.what}: type runs to the end")
            if v == "<":
                depth += 1
            elif v == ">":
                depth -= 1
            elif v == "=" and depth == 0:
                return
            self.i += 1

    def match_expr(self):
        self.eat("match")
        s = self.expr(no_struct=True)
        self.eat("{")
        arms = []
        while not self.at("}"):
            pat = self.pattern()
            guard = None
            if self.at("if"):
                self.i += 1
                guard = self.expr(no_struct=True)
            self.eat("=>")
            if self.at("{"):
                body = ("block", self.block())
            else:
                body = ("e", self.expr())
            if self.at(","):
                self.i += 1
            arms.append((pat, guard, body))
        self.eat("}")
        return ("match", s, arms)

    # ---- patterns
    def pattern(self):
        alts = [self.pattern1()]
        while self.at("|"):
            self.i += 1
            alts.append(self.pattern1())
        return alts[0] if len(alts) == 1 else ("por", alts)

    def pattern1(self):
        if self.at("("):
            self.i += 1
            items = []
            while not self.at(")"):
                items.append(self.pattern())
                if self.at(","):
                    self.i += 1
            self.eat(")")
            return items[0] if len(items) == 1 else ("ptuple", items)
        if self.at("mut"):
            self.i += 1
        if self.at("_"):
            self.i += 1
            return ("pwild",)
        path = [self.ident()]
        while self.at("::"):
            self.i += 1
            path.append(self.ident())
        if self.at("@"):
            if len(path) != 1:
                err(f"{self.what}: `@` after a path")
            self.i += 1
            return ("pbind", path[0], self.pattern1())
        if self.at("("):
            self.i += 1
            subs = []
            while not self.at(")"):
                subs.append(self.pattern())
                if self.at(","):
                    self.i += 1
            self.eat(")")
            return ("pctor", path, subs)
        return ("ppath", path)

    # ---- expressions
    BIN = [["||"], ["&&"], ["==", "!=", "<=", ">=", "<", ">"], ["+", "-"]]

    def expr(self, no_struct=False, lvl=0):
        if lvl == len(self.BIN):
            return self.unary(no_struct)
        l = self.expr(no_struct, lvl + 1)
        while self.peek()[0] == "op" and self.peek()[1] in self.BIN[lvl]:
            op = self.peek()[1]
            self.i += 1
            r = self.expr(no_struct, lvl + 1)
            l = ("bin", op, l, r)
        return l

    def unary(self, ns):
        if self.at("!"):
            self.i += 1
            return ("un", "!", self.unary(ns))
        if self.at("&"):
            self.i += 1
            if self.at("mut"):
                self.i += 1
            return ("un", "&", self.unary(ns))
        if self.at("*"):
            self.i += 1
            return ("un", "*", self.unary(ns))
        return self.postfix(ns)

    def args(self):
        self.eat("(")
        out = []
        while not self.at(")"):
            out.append(self.expr())
            if self.at(","):
                self.i += 1
        self.eat(")")
        return out

    def postfix(self, ns):
        e = self.primary(ns)
        while True:
            if self.at("."):
                self.i += 1
                k, v = self.peek()
                if k == "num":
                    self.i += 1
                    e = ("field", e, v)
                    continue
                name = self.ident()
                if self.at("("):
                    e = ("method", e, name, self.args())
                else:
                    e = ("field", e, name)
            elif self.at("?"):
                self.i += 1
                e = ("try", e)
            elif self.at("["):
                self.i += 1
                self.eat("..")
                hi = self.expr()
                self.eat("]")
                e = ("prefix", e, hi)
            elif self.at("("):
                e = ("call", e, self.args())
            else:
                return e

    def primary(self, ns):
        k, v = self.peek()
        if k == "num":
            self.i += 1
            return ("num", v)
        if k == "str":
            self.i += 1
            return ("str", v)
        if self.at("("):
            self.i += 1
            if self.at(")"):
                self.i += 1
                return ("unit",)
            e = self.expr()
            self.eat(")")
            return e
        if self.at("|") or self.at("||"):
            params = []
            if self.at("||"):
                self.i += 1
            else:
                self.i += 1
                while not self.at("|"):
                    params.append(self.pattern1())
                    if self.at(","):
                        self.i += 1
                self.eat("|")
            if self.at("{"):
                return ("closure", params, ("block", self.block()))
            return ("closure", params, ("e", self.expr()))
        if self.at("match"):
            return self.match_expr()
        if k != "id":
            err(f"{self.what}: expression expected, found `{v}`")
        path = [self.ident()]
        while self.at("::"):
            self.i += 1
            path.append(self.ident())
        if self.at("{") and not ns and path[-1][0].isupper():
            self.i += 1
            fields = []
            while not self.at("}"):
                fname = self.ident()
                if self.at(":"):
                    self.i += 1
                    fields.append((fname, self.expr()))
                else:
                    fields.append((fname, ("path", [fname])))
                if self.at(","):
                    self.i += 1
            self.eat("}")
            return ("struct", path, fields)
        return ("path", path)


def parse_fn(text, header_re, what):
    p = P(tokenize(fn_body(text, header_re, what), what), what)
    st = p.stmts()
    if not p.done():
        err(f"{what}: trailing tokens")
    return st


# ---------------------------------------------------------------- translation
CTORS = {
    ("GetFor", "Final"): "GFinal", ("GetFor", "SuperPlus"): "GSuperPlus", ("GetFor", "Omit"): "GOmit",
    ("GetFor", "NotFound"): "GNotFound",
    ("HasFieldIncludeHidden", "Exists"): "HExists", ("HasFieldIncludeHidden", "NotFound"): "HNotFound",
    ("HasFieldIncludeHidden", "Omit"): "HOmit",
    ("FieldVisibility", "Found"): "FVFound", ("FieldVisibility", "Omit"): "FVOmit",
    ("FieldVisibility", "NotFound"): "FVNotFound",
    ("Visibility", "Normal"): "VisNormal", ("Visibility", "Hidden"): "VisHidden", ("Visibility", "Unhide"): "VisUnhide",
    ("EnumFields", "Normal"): "EvNormal", ("EnumFields", "Omit"): "EvOmit",
    ("Some",): "Some", ("None",): "None",
}
ENUMS = {   # enum name -> constructors the model knows; the declaration must list exactly these
    "GetFor": ["Final", "SuperPlus", "Omit", "NotFound"],
    "HasFieldIncludeHidden": ["Exists", "NotFound", "Omit"],
    "FieldVisibility": ["Found", "Omit", "NotFound"],
    "EnumFields": ["Normal", "Omit"],
}
RESERVED = {"exists", "vis", "name", "add", "ev", "rev", "mem", "assoc", "layer", "member", "bind", "res", "fix",
            "at", "end", "in", "using", "as", "fun", "forall", "return", "then", "with", "below", "rl", "cores", "upto"}
CORE_CALLS = {"get_for_core": ("get_for_core ev", 3), "has_field_include_hidden_core": ("has_field_include_hidden_core", 1),
              "field_visibility_core": ("field_visibility_core", 1)}
CMP = {"==": "N.eqb {l} {r}", "!=": "negb (N.eqb {l} {r})", "<=": "N.leb {l} {r}", "<": "N.ltb {l} {r}",
       ">=": "N.leb {r} {l}", ">": "N.ltb {r} {l}"}
PANIC = "Err EInternal"


def rn(x):
    return x + "_" if x in RESERVED else x


class Tr:
    def __init__(self, what, panic=PANIC):
        self.what = what
        self.panic = panic
        self.hoist = []
        self.alias = {}      # rust local -> gallina term (sup_this, iterator element ...)

    def bad(self, msg):
        err(f"{self.what}: {msg}")

    # ---- patterns
    def pat(self, p):
        k = p[0]
        if k == "pwild":
            return "_"
        if k == "ppath":
            path = tuple(p[1])
            if path in CTORS:
                return CTORS[path]
            if len(path) == 1 and path[0][0].islower():
                return rn(path[0])
            self.bad(f"unknown pattern path {'::'.join(path)}")
        if k == "pctor":
            path = tuple(p[1])
            if path not in CTORS:
                self.bad(f"unknown constructor pattern {'::'.join(path)}")
            return "(" + CTORS[path] + " " + " ".join(self.pat(s) for s in p[2]) + ")"
        if k == "por":
            return "(" + " | ".join(self.pat(s) for s in p[1]) + ")"
        if k == "pbind":
            return f"({self.pat(p[2])} as {rn(p[1])})"
        self.bad(f"untranslatable pattern {p!r:.80}")

    # ---- expressions
    def ex(self, e):
        k = e[0]
        if k == "num":
            return e[1]
        if k == "path":
            path = tuple(e[1])
            if path in CTORS:
                return CTORS[path]
            if len(path) == 1:
                if path[0] in ("true", "false"):
                    return path[0]
                if path[0] in self.alias:
                    return self.alias[path[0]]
                if path[0][0].islower():
                    return rn(path[0])
            self.bad(f"unknown path {'::'.join(path)}")
        if k == "un":
            if e[1] == "!":
                return f"(negb {self.ex(e[2])})"
            if e[1] == "&":
                return self.ex(e[2])
            self.bad(f"unary {e[1]}")
        if k == "bin":
            l, r = self.ex(e[2]), self.ex(e[3])
            op = e[1]
            if op in CMP:
                return "(" + CMP[op].format(l=l, r=r) + ")"
            if op == "+":
                return f"(sat_add {l} {r})"
            if op == "-":
                return f"(g_sat_sub {l} {r})"
            if op == "&&":
                return f"(andb {l} {r})"
            if op == "||":
                return f"(orb {l} {r})"
            self.bad(f"binary operator {op}")
        if k == "call":
            f = e[1]
            if f[0] != "path":
                self.bad("call of a non-path")
            path = tuple(f[1])
            a = e[2]
            if path == ("Saturating",) and len(a) == 1:
                return self.ex(a[0])
            if path == ("Ok",) and len(a) == 1:
                return f"(Ok {self.ex(a[0])})"
            if path == ("evaluate_add_op",) and len(a) == 2:
                return f"(add {self.ex(a[0])} {self.ex(a[1])})"
            if path in CTORS:
                return "(" + CTORS[path] + " " + " ".join(self.ex(x) for x in a) + ")"
            self.bad(f"unknown function {'::'.join(path)}")
        if k == "field":
            recv, name = e[1], e[2]
            if name == "0":
                return self.ex(recv)          # Saturating(x).0 / CcObjectCore.0: transparent wrappers
            if name in ("omitted_until", "exists_visible"):
                return f"({name} {self.ex(recv)})"
            self.bad(f"unknown field .{name}")
        if k == "method":
            recv, name, a = e[1], e[2], e[3]
            if name in CORE_CALLS:
                fn, n = CORE_CALLS[name]
                if len(a) != n:
                    self.bad(f"{name}: {n} arguments expected")
                if not (recv[0] == "field" and recv[2] == "0"):
                    self.bad(f"{name}: receiver must be <core>.0")
                args = " ".join(self.ex(x) for x in a)
                if name == "get_for_core":
                    return f"({fn} {self.ex(recv[1])} {args})"
                return f"({fn} {self.ex(recv[1])} {args})"
            r = self.ex(recv)
            if name in ("clone", "into_iter", "iter") and not a:
                return r
            if name == "rev" and not a:
                return f"(rev {r})"
            if name in ("max", "min") and len(a) == 1:
                return f"(N.{name} {r} {self.ex(a[0])})"
            if name == "is_none" and not a:
                return f"(g_is_none {r})"
            if name == "is_some" and not a:
                return f"(is_some {r})"
            if name == "is_empty" and not a:
                return f"(g_is_empty {r})"
            if name == "then_some" and len(a) == 1:
                return f"(if {r} then Some {self.ex(a[0])} else None)"
            if name == "pop" and not a:
                return f"(g_last {r})"
            if name == "expect" and len(a) == 1 and a[0][0] == "str":
                v = f"x{len(self.hoist)}"
                self.hoist.append((v, r))
                return v
            if name == "map" and a == [("path", ["Some"])]:
                return f"(bind {r} (fun v => Ok (Some v)))"
            if name == "try_fold" and len(a) == 2 and a[1][0] == "closure" and len(a[1][1]) == 2 \
                    and a[1][2][0] == "e":
                ps = [self.pat(x) for x in a[1][1]]
                return f"(try_fold (fun {ps[0]} {ps[1]} => {self.ex(a[1][2][1])}) {self.ex(a[0])} {r})"
            self.bad(f"unknown method .{name}/{len(a)}")
        if k == "match":
            arms = []
            for p, g, b in e[2]:
                if g is not None or b[0] != "e":
                    self.bad("match expression with guard / block arm")
                arms.append(f"| {self.pat(p)} => {self.ex(b[1])}")
            return f"(match {self.ex(e[1])} with {' '.join(arms)} end)"
        self.bad(f"untranslatable expression {e!r:.100}")

    def with_hoists(self, mk):
        """translate with .expect() hoisting: mk() -> term using hoisted variables"""
        saved, self.hoist = self.hoist, []
        t = mk()
        for v, o in reversed(self.hoist):
            t = f"match {o} with Some {v} => {t} | None => {self.panic} end"
        self.hoist = saved
        return t

    # ---- statements, continuation style.  k: () -> term for "fall off the end of this list"
    def run(self, stmts, k, brk=None):
        if not stmts:
            return k()
        s, rest = stmts[0], stmts[1:]
        rest_k = lambda: self.run(rest, k, brk)   # noqa: E731
        t = s[0]
        if t == "return" or t == "final":
            if rest:
                self.bad("statements after return")
            if s[1] is None:
                self.bad("bare return")
            return self.with_hoists(lambda: self.ex(s[1]))
        if t == "break":
            if rest or brk is None:
                self.bad("break outside the loop / followed by statements")
            return brk()
        if t == "if":
            c = self.ex(s[1])
            a = self.run(s[2], rest_k, brk)
            b = self.run(s[3], rest_k, brk) if s[3] is not None else rest_k()
            return f"(if {c} then {a} else {b})"
        if t == "matchs":
            return self.match_stmt(s[1], s[2], rest_k, brk)
        if t == "assign":
            lhs, op, r = s[1], s[2], s[3]
            if lhs[0] == "field" and lhs[1] == ("path", ["data"]) and op == "=":
                rv = self.ex(r)
                if lhs[2] == "omitted_until":
                    return f"(let data := FvData {rv} (exists_visible data) in {rest_k()})"
                if lhs[2] == "exists_visible":
                    return f"(let data := FvData (omitted_until data) {rv} in {rest_k()})"
                self.bad(f"assignment to data.{lhs[2]}")
            if lhs[0] != "path" or len(lhs[1]) != 1:
                self.bad("assignment to a non-variable")
            x = rn(lhs[1][0])
            rv = self.ex(r)
            if op == "-=":
                rv = f"(g_sat_sub {x} {rv})"
            elif op == "+=":
                rv = f"(sat_add {x} {rv})"
            return f"(let {x} := {rv} in {rest_k()})"
        if t == "expr":
            e = s[1]
            if e[0] == "method" and e[1][0] == "path" and len(e[1][1]) == 1:
                x = rn(e[1][1][0])
                if e[2] == "push" and len(e[3]) == 1:
                    return f"(let {x} := {x} ++ [{self.ex(e[3][0])}] in {rest_k()})"
                if e[2] == "insert" and len(e[3]) == 2 and e[3][0] == ("num", "0"):
                    return f"(let {x} := {self.ex(e[3][1])} :: {x} in {rest_k()})"
            self.bad(f"untranslatable expression statement {e!r:.100}")
        if t == "let":
            pat, e, els = s[1], s[2], s[3]
            if els is not None:
                if not (pat[0] == "pctor" and pat[1] == ["Some"] and len(pat[2]) == 1):
                    self.bad("let-else with a pattern other than Some(x)")
                none_k = lambda: self.bad("let-else block falls through")   # noqa: E731
                return (f"(match {self.ex(e)} with Some {self.pat(pat[2][0])} => {rest_k()} "
                        f"| None => {self.run(els, none_k, brk)} end)")
            if pat[0] != "ppath" or len(pat[1]) != 1:
                self.bad("let with a non-variable pattern")
            x = pat[1][0]
            # SupThis { sup: CoreIdx { idx: S }, this: self.clone() }  ==  the index S (self is fixed in a walk)
            if e[0] == "struct" and e[1] == ["SupThis"]:
                f = dict(e[2])
                if set(f) != {"sup", "this"} or f["this"] != ("method", ("path", ["self"]), "clone", []) \
                        or f["sup"][0] != "struct" or f["sup"][1] != ["CoreIdx"] or len(f["sup"][2]) != 1 \
                        or f["sup"][2][0][0] != "idx":
                    self.bad("unexpected SupThis literal")
                self.alias[x] = self.ex(f["sup"][2][0][1])
                return rest_k()
            # it.next().expect(..): head of the iterator, the iterator advances
            if e[0] == "method" and e[2] == "expect" and e[1][0] == "method" and e[1][2] == "next" \
                    and e[1][1][0] == "path" and len(e[1][1][1]) == 1:
                it = rn(e[1][1][1][0])
                return f"(match {it} with {rn(x)} :: {it} => {rest_k()} | [] => {self.panic} end)"
            return self.with_hoists(lambda: f"(let {rn(x)} := {self.ex(e)} in {rest_k()})")
        self.bad(f"untranslatable statement {s!r:.100}")

    def match_stmt(self, scrut, arms, rest_k, brk):
        # `e?` as scrutinee: bind
        if scrut[0] == "try":
            inner = self.ex(scrut[1])
            body = self.arms("g", arms, rest_k, brk)
            return f"(bind {inner} (fun g => {body}))"
        sv = self.ex(scrut)
        if not re.fullmatch(r"\w+", sv):
            return f"(let s := {sv} in {self.arms('s', arms, rest_k, brk)})"
        return self.arms(sv, arms, rest_k, brk)

    def arms(self, sv, arms, rest_k, brk):
        """first-match semantics; an arm with a guard that fails falls through to the later arms"""
        if not arms:
            self.bad("guarded arm without a later arm to fall through to")
        out = []
        for n, (p, g, b) in enumerate(arms):
            body = self.run(b[1], rest_k, brk) if b[0] == "block" else self.with_hoists(lambda: self.ex(b[1]))
            if g is None:
                out.append(f"| {self.pat(p)} => {body}")
            else:
                later = self.arms(sv, arms[n + 1:], rest_k, brk)
                out.append(f"| {self.pat(p)} => if {self.ex(g)} then {body} else {later}")
                out.append(f"| _ => {later}")
                break
        return f"match {sv} with {' '.join(out)} end"


# ---------------------------------------------------------------- the walks
INIT_TYPES = [
    (("call", ("path", ["Saturating"]), [("num", "0")]), "N", "0"),
    (("path", ["false"]), "bool", "false"),
    (("path", ["None"]), "option V", "None"),
    (("call", ("path", ["Vec", "new"]), []), "list V", "[]"),
]


def init_of(e, what):
    for shape, ty, term in INIT_TYPES:
        if e == shape:
            return ty, term
    err(f"{what}: unknown initial value {e!r:.80}")


def iter_of(it, what, want_enumerate):
    """self.0.cores[..core.idx].iter()[.enumerate()][.rev()] -> (gallina list term, enumerate?, reversed?)"""
    chain = []
    e = it
    while e[0] == "method" and not e[3]:
        chain.append(e[2])
        e = e[1]
    chain.reverse()
    cores = ("field", ("field", ("path", ["self"]), "0"), "cores")
    if e == ("prefix", cores, ("field", ("path", ["core"]), "idx")):
        base = "(firstn upto cores)"
    elif e == cores:
        base = "cores"
    else:
        err(f"{what}: loop does not iterate self.0.cores / self.0.cores[..core.idx]")
    if not chain or chain[0] != "iter":
        err(f"{what}: .iter() expected")
    rest = chain[1:]
    enum = False
    if rest and rest[0] == "enumerate":
        enum, rest = True, rest[1:]
    if rest == ["rev"]:
        rev = True
    elif rest == []:
        rev = False
    else:
        err(f"{what}: unknown iterator adaptor chain {chain}")
    if enum != want_enumerate:
        err(f"{what}: enumerate() {'expected' if want_enumerate else 'unexpected'}")
    if enum and not rev:
        err(f"{what}: forward enumerate() is not supported (the index of a layer would not be `length below`)")
    return (f"(rev {base})" if rev else base), enum, rev


def walk(text, header_re, what, gname, keyname, rtype, gate=False):
    st = parse_fn(text, header_re, what)
    gated = False
    if st and st[0] == ("expr", ("try", ("method", ("path", ["self"]), "run_assertions", []))):
        if not gate:
            err(f"{what}: unexpected run_assertions()")
        gated, st = True, st[1:]
    elif gate:
        err(f"{what}: the leading `self.run_assertions()?;` is gone")
    vars_ = []
    while st and st[0][0] == "let" and st[0][3] is None and st[0][1][0] == "ppath":
        ty, term = init_of(st[0][2], what)
        vars_.append((rn(st[0][1][1][0]), ty, term))
        st = st[1:]
    if not st or st[0][0] != "for":
        err(f"{what}: `for` loop expected after the initialisations")
    _, pat, it, body = st[0]
    after = st[1:]
    tr = Tr(what, panic="Err EInternal" if rtype.startswith("res") else None)
    if pat[0] == "ptuple" and len(pat[1]) == 2 and all(x[0] == "ppath" for x in pat[1]):
        idx, ele = rn(pat[1][0][1][0]), rn(pat[1][1][1][0])
        want_enum = True
    elif pat[0] == "ppath":
        idx, ele = None, rn(pat[1][0])
        want_enum = False
    else:
        err(f"{what}: unexpected loop pattern")
    lst, _, _ = iter_of(it, what, want_enum)
    key = rn(keyname)
    names = " ".join(v for v, _, _ in vars_)
    params = " ".join(f"({v} : {ty})" for v, ty, _ in vars_)
    fall = lambda: tr.bad("the code after the loop falls off the end")   # noqa: E731
    after_t = tr.run(after, fall)
    rec = lambda: f"{gname}_loop below {key} {names}"      # noqa: E731
    brk = lambda: f"{gname}_after {names}"                  # noqa: E731
    body_t = tr.run(body, rec, brk)
    if idx:
        body_t = f"let {idx} := length below in {body_t}"
    inits = "".join(f"let {v} := {term} in " for v, _, term in vars_)
    return (
        f"(* {what}: the code after the loop *)\n"
        f"Definition {gname}_after {params} : {rtype} :=\n  {after_t}.\n"
        f"(* {what}: the `for` loop; rl = the iterated cores, head first *)\n"
        f"Fixpoint {gname}_loop (rl : list (layer B)) ({key} : name) {params} {{struct rl}} : {rtype} :=\n"
        f"  match rl with\n  | [] => {gname}_after {names}\n  | {ele} :: below =>\n    {body_t}\n  end.\n"
        f"Definition {gname} (cores : list (layer B)) ({key} : name) (upto : nat) : {rtype} :=\n"
        f"  {inits}{gname}_loop {lst} {key} {names}.\n"
        + (f"Definition {gname}_runs_assertions_first : bool := {'true' if gated else 'false'}.\n" if gate else "")
    )


def fields_visibility(text):
    what = "fields_visibility"
    st = parse_fn(text, r"fn fields_visibility\s*\(\s*&self\s*\)[^{]*\{", what)
    tr = Tr(what, panic=None)
    want = [("out", ("call", ("path", ["FxHashMap", "default"]), [])),
            ("super_depth", ("call", ("path", ["SuperDepth", "default"]), [])),
            ("omit_index", ("call", ("path", ["Saturating"]), [("num", "0")]))]
    for n, (v, e) in enumerate(want):
        if n >= len(st) or st[n] != ("let", ("ppath", [v]), e, None):
            err(f"{what}: `let mut {v} = ..` expected as statement {n + 1}")
    st = st[3:]
    if len(st) != 3 or st[0][0] != "for":
        err(f"{what}: for loop, retain, `out` expected")
    if st[1] != ("expr", ("method", ("path", ["out"]), "retain",
                          [("closure", [("pwild",), ("ppath", ["v"])],
                            ("e", ("method", ("field", ("path", ["v"]), "exists_visible"), "is_some", [])))])):
        err(f"{what}: `out.retain(|_, v| v.exists_visible.is_some());` expected after the loop")
    if st[2] != ("final", ("path", ["out"])):
        err(f"{what}: final expression `out` expected")
    _, pat, it, body = st[0]
    if pat != ("ppath", ["core"]):
        err(f"{what}: loop variable")
    lst, _, _ = iter_of(it, what, False)
    if len(body) != 3:
        err(f"{what}: loop body must be the enum_fields_core call, super_depth.deepen(), omit_index update")
    call = body[0]
    if not (call[0] == "expr" and call[1][0] == "method" and call[1][2] == "enum_fields_core"
            and call[1][1] == ("field", ("path", ["core"]), "0") and len(call[1][3]) == 2
            and call[1][3][0] == ("un", "&", ("path", ["super_depth"]))
            and call[1][3][1][0] == "un" and call[1][3][1][2][0] == "closure"):
        err(f"{what}: `core.0.enum_fields_core(&mut super_depth, &mut |..| {{..}});` expected")
    clo = call[1][3][1][2]
    if [p for p in clo[1]] != [("ppath", ["depth"]), ("ppath", ["index"]), ("ppath", ["name"]),
                                ("ppath", ["visibility"])] or clo[2][0] != "block":
        err(f"{what}: closure parameters |depth, index, name, visibility| expected")
    cb = clo[2][1]
    if len(cb) != 4 or cb[0] != ("let", ("ppath", ["entry"]), ("method", ("path", ["out"]), "entry",
                                                                  [("path", ["name"])]), None):
        err(f"{what}: closure must start with `let entry = out.entry(name);`")
    d = cb[1]
    if not (d[0] == "let" and d[1] == ("ppath", ["data"]) and d[3] is None and d[2][0] == "method"
            and d[2][1] == ("path", ["entry"]) and d[2][2] == "or_insert_with" and len(d[2][3]) == 1
            and d[2][3][0][0] == "closure" and d[2][3][0][1] == [] and d[2][3][0][2][0] == "e"
            and d[2][3][0][2][1][0] == "struct" and d[2][3][0][2][1][1] == ["FieldVisibilityData"]):
        err(f"{what}: `let data = entry.or_insert_with(|| FieldVisibilityData {{..}});` expected")
    fs = dict(d[2][3][0][2][1][2])
    if set(fs) != {"exists_visible", "key", "omitted_until"}:
        err(f"{what}: FieldVisibilityData fields")
    default = f"FvData {tr.ex(fs['omitted_until'])} {tr.ex(fs['exists_visible'])}"
    if cb[2][0] != "matchs" or cb[2][1] != ("path", ["visibility"]):
        err(f"{what}: `match visibility` expected")
    if cb[3] != ("final", ("call", ("path", ["ControlFlow", "Continue"]), [("unit",)])):
        err(f"{what}: the closure must end with ControlFlow::Continue(())")
    step = tr.run([cb[2]], lambda: "data")
    if body[1] != ("expr", ("method", ("path", ["super_depth"]), "deepen", [])):
        err(f"{what}: super_depth.deepen() expected")
    if not (body[2][0] == "assign" and body[2][1] == ("path", ["omit_index"])):
        err(f"{what}: omit_index update expected")
    nxt = tr.run([body[2]], lambda: "omit_index")
    return (
        "(* fields_visibility: or_insert_with default, the closure's match, the index update *)\n"
        f"Definition gen_fv_default (omit_index : N) : fvdata :=\n  {default}.\n"
        f"Definition gen_fv_step (omit_index : N) (data : fvdata) (visibility : enum_ev) : fvdata :=\n  {step}.\n"
        f"Definition gen_fv_next (omit_index : N) : N :=\n  {nxt}.\n"
        "Definition gen_fv_layer (omit_index : N) (out : list (name * fvdata)) (l : layer B) :=\n"
        "  fold_left (fun o ke => map_upsert o (fst ke) (gen_fv_default omit_index)\n"
        "                           (fun d => gen_fv_step omit_index d (snd ke))) (enum_fields_core l) out.\n"
        "Fixpoint gen_fv_loop (rl : list (layer B)) (omit_index : N) (out : list (name * fvdata)) :=\n"
        "  match rl with\n  | [] => out\n"
        "  | core :: below => let out := gen_fv_layer omit_index out core in\n"
        "                     gen_fv_loop below (gen_fv_next omit_index) out\n  end.\n"
        "Definition gen_fields_visibility (cores : list (layer B)) : list (name * vis) :=\n"
        f"  retain (gen_fv_loop {lst} 0 []).\n"
    )


def check_enums(text):
    t = strip_comments(text)
    for en, ctors in ENUMS.items():
        m = re.findall(r"\benum\s+" + en + r"\s*\{([^}]*)\}", t)
        if len(m) != 1:
            err(f"enum {en}: declaration not found exactly once")
        got = re.findall(r"(?:^|,)\s*(?:#\[[^\]]*\]\s*)*([A-Z]\w*)", re.sub(r"\([^)]*\)", "", m[0]))
        if got != ctors:
            err(f"enum {en}: constructors {got}, the model knows {ctors}")
    if not re.search(r"type\s+Skip\s*=\s*Saturating\s*<\s*usize\s*>\s*;", t):
        err("type Skip = Saturating<usize> expected")


def extend_from(text):
    what = "extend_from"
    body = fn_body(text, r"pub fn extend_from\s*\(\s*&self\s*,\s*sup\s*:\s*Self\s*\)[^{]*\{", what)
    ext = re.findall(r"cores\s*\.\s*extend\s*\(\s*(\w+)\s*\.\s*0\s*\.\s*cores\s*\.\s*iter\s*\(\s*\)\s*\.\s*cloned\s*\(\s*\)\s*\)\s*;", body)
    if len(re.findall(r"cores\s*\.\s*(?:extend|push|insert|append)\w*\s*\(", body)) != len(ext) or not ext:
        err(f"{what}: unrecognised update of `cores`")
    if not re.search(r"let\s+mut\s+cores\s*=\s*Vec::with_capacity\s*\(", body) or \
            not re.search(r"ObjValueInner\s*\{\s*cores\s*,", body):
        err(f"{what}: cores is not a fresh Vec moved into the result")
    names = {"sup": "sup", "self": "this"}
    for x in ext:
        if x not in names:
            err(f"{what}: extend from unknown object {x}")
    return ("(* extend_from: the fresh core vector, in the order of the extend() calls *)\n"
            "Definition gen_extend_from (sup this : list (layer B)) : list (layer B) :=\n  "
            + " ++ ".join(["[]"] + [names[x] for x in ext]) + ".\n")


def with_fields_omitted(text):
    what = "with_fields_omitted"
    st = parse_fn(text, r"pub fn with_fields_omitted\s*\(\s*&mut self\s*,\s*omit\s*:[^)]*\)\s*\{", what)
    if len(st) != 2 or st[0] != ("expr", ("method", ("path", ["self"]), "commit", [])):
        err(f"{what}: `self.commit();` then one push expected")
    e = st[1]
    sup = ("field", ("path", ["self"]), "sup")
    if not (e[0] == "expr" and e[1][0] == "method" and e[1][1] == sup and e[1][2] == "push" and len(e[1][3]) == 1
            and e[1][3][0][0] == "call" and e[1][3][0][1] == ("path", ["CcObjectCore", "new"])
            and len(e[1][3][0][2]) == 1 and e[1][3][0][2][0][0] == "struct"
            and e[1][3][0][2][0][1] == ["OmitFieldsCore"]):
        err(f"{what}: `self.sup.push(CcObjectCore::new(OmitFieldsCore {{..}}));` expected")
    fs = e[1][3][0][2][0][2]
    d = dict(fs)
    if set(d) != {"omit", "prev_layers"} or d["omit"] != ("path", ["omit"]):
        err(f"{what}: OmitFieldsCore fields")
    pl = d["prev_layers"]
    if pl == ("method", sup, "len", []):
        n = "(N.of_nat (length sup))"
    else:
        err(f"{what}: prev_layers is not self.sup.len()")
    return ("(* with_fields_omitted on a builder whose committed cores are sup *)\n"
            "Definition gen_with_fields_omitted (sup : list (layer B)) (omit : list name) : list (layer B) :=\n"
            f"  sup ++ [LOmit omit {n}].\n")


PRELUDE = """From Coq Require Import List ZArith NArith Bool.
From JrV Require Import C02.Model.
Import ListNotations.
Open Scope N_scope.

(** Semantics of the Rust primitives the translated text uses (fixed text of the translator). *)
(* Saturating<usize> `-`: stops at 0 *)
Definition g_sat_sub (a b : N) : N := a - b.
Definition g_is_none {A} (o : option A) : bool := match o with None => true | Some _ => false end.
Definition g_is_empty {A} (l : list A) : bool := match l with [] => true | _ :: _ => false end.
(* Vec::pop: the last element *)
Definition g_last {A} (l : list A) : option A := hd_error (rev l).

Section GenObj.
Context {B V : Type}.
Variable ev : nat -> B -> res V.
Variable add : V -> V -> res V.

"""


@generator("GenObj")
def gen_obj():
    mod = src(MOD)
    oop = src(OOP)
    check_enums(mod)
    parts = [
        walk(mod, r"fn get_idx_uncached\s*\(\s*&self\s*,\s*key\s*:\s*IStr\s*,\s*core\s*:\s*CoreIdx\s*\)[^{]*\{",
             "get_idx_uncached", "gen_get_idx_walk", "key", "res (option V)", gate=True),
        walk(mod, r"fn has_field_include_hidden_idx\s*\(\s*&self\s*,\s*name\s*:\s*IStr\s*,\s*core\s*:\s*CoreIdx\s*\)[^{]*\{",
             "has_field_include_hidden_idx", "gen_has_field_include_hidden_idx", "name", "bool"),
        walk(mod, r"fn field_visibility_idx\s*\(\s*&self\s*,\s*field\s*:\s*IStr\s*,\s*core\s*:\s*CoreIdx\s*\)[^{]*\{",
             "field_visibility_idx", "gen_field_visibility_idx", "field", "option vis"),
        fields_visibility(mod),
        extend_from(mod),
        with_fields_omitted(oop),
    ]
    return PRELUDE + "\n".join(parts) + "\nEnd GenObj.\n"
