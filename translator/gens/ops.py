"""GenOps.v (C01): the operator dispatch of crates/jrsonnet-evaluator/src/evaluate/operator.rs and the type
dispatch of `equals` / `primitive_equals` in val.rs, read arm by arm from the source text.

For each function the translator checks the statement skeleton around its single `match` (use-lines, the
division-by-zero test and WHERE it stands, `Ok(match ..)`), splits the match into arms in source order, drops
the arms under `#[cfg(feature = "exp-bigint")]` / `"exp-null-coaelse"` (named explicitly; any other attribute
is an error), parses every pattern (tuples over Val::{Null,Bool,Num,Str,Arr,Obj,Func}, operator names,
binders, `_`, or-patterns, the guards `x.is_empty()` and `is_function_like(a) && is_function_like(b)`) and
classifies every body by comparing it - after replacing the arm's binders by positional markers and removing
white space - with the closed list of body shapes below.  What is emitted is DATA (lists of arms with a body
class); the first-match reading is done in Gallina (C01/ModelOps.v) and tied to Sem by C01/ProofsOps.v.

Markers: $L $R = the whole left / right value, $l $r = the payload bound inside Variant(..) on the left /
right, $V $v likewise for the unary operand, $O = the operator, $E = the unevaluated right expression.

Fail closed: any statement, attribute, pattern, guard or body that is not in the recognised subset raises
TranslateError, so a source edit is never silently ignored.
"""
import re

from gen import TranslateError, generator, src

OPERATOR_RS = "crates/jrsonnet-evaluator/src/evaluate/operator.rs"
VAL_RS = "crates/jrsonnet-evaluator/src/val.rs"
EXPR_RS = "crates/jrsonnet-ir/src/expr.rs"

VARIANTS = {"Null": "TNull", "Bool": "TBool", "Num": "TNum", "Str": "TStr", "Arr": "TArr", "Obj": "TObj",
            "Func": "TFunc"}
PAYLOAD = {"Bool", "Num", "Str", "Arr", "Obj", "Func"}          # variants written Variant(..)
IGNORED_FEATURES = {"exp-bigint", "exp-null-coaelse"}
BINOPS = {"Mul": "BMul", "Div": "BDiv", "Mod": "BMod", "Add": "BAdd", "Sub": "BSub", "Lhs": "BShl", "Rhs": "BShr",
          "Lt": "BLt", "Gt": "BGt", "Lte": "BLe", "Gte": "BGe", "Eq": "BEq", "Neq": "BNe", "In": "BIn",
          "BitAnd": "BBitAnd", "BitXor": "BBitXor", "BitOr": "BBitOr", "And": "BAnd", "Or": "BOr"}
UNOPS = {"Plus": "UPlus", "Minus": "UNeg", "Not": "UNot", "BitNot": "UBitNot"}
BINDER = re.compile(r"[a-z_][a-z0-9_]*\Z")


def err(msg):
    raise TranslateError("ops: " + msg)


# ------------------------------------------------------------------ lexical helpers
def strip_comments(text):
    out, i, n = [], 0, len(text)
    while i < n:
        c = text[i]
        if c == '"':
            j = i + 1
            while j < n and text[j] != '"':
                j += 2 if text[j] == "\\" else 1
            out.append(text[i:j + 1])
            i = j + 1
        elif text.startswith("//", i):
            while i < n and text[i] != "\n":
                i += 1
        elif text.startswith("/*", i):
            err("block comment in a translated function")
        else:
            out.append(c)
            i += 1
    return "".join(out)


def matching(text, i):
    """index of the bracket closing the one at text[i] (strings skipped)"""
    close = {"(": ")", "[": "]", "{": "}"}
    stack, n = [], len(text)
    while i < n:
        c = text[i]
        if c == '"':
            i += 1
            while i < n and text[i] != '"':
                i += 2 if text[i] == "\\" else 1
        elif c in close:
            stack.append(close[c])
        elif c in ")]}":
            if not stack or stack.pop() != c:
                err("unbalanced brackets")
            if not stack:
                return i
        i += 1
    err("unbalanced brackets")


def top_level_split(text, seps):
    """split at the separator strings in `seps` that stand outside brackets and strings"""
    parts, depth, i, n, start = [], 0, 0, len(text), 0
    while i < n:
        c = text[i]
        if c == '"':
            i += 1
            while i < n and text[i] != '"':
                i += 2 if text[i] == "\\" else 1
        elif c in "([{":
            depth += 1
        elif c in ")]}":
            depth -= 1
        elif depth == 0:
            for s in seps:
                if text.startswith(s, i):
                    parts.append(text[start:i])
                    start = i + len(s)
                    i = start - 1
                    break
        i += 1
    parts.append(text[start:])
    return parts


def squeeze(s):
    s = re.sub(r"\s+", "", s)
    return re.sub(r",([)\]}])", r"\1", s)


def fn_body(text, header_re, what):
    ms = list(re.finditer(header_re, text))
    if len(ms) != 1:
        err(f"{what}: expected exactly one definition, found {len(ms)}")
    i = text.index("{", ms[0].end() - 1)
    return strip_comments(text[i + 1:matching(text, i)])


def split_match(body, what):
    """-> (skeleton with the match replaced by MATCH, scrutinee, arms text)"""
    ms = list(re.finditer(r"\bmatch\b", body))
    if not ms:
        err(f"{what}: no match expression")
    i = ms[0].end()
    j = body.index("{", i)
    # the scrutinee may contain brackets but no braces
    k = matching(body, j)
    rest = body[:ms[0].start()] + "MATCH" + body[k + 1:]
    if re.search(r"\bmatch\b", rest):
        err(f"{what}: more than one match expression at the top of the function")
    return squeeze(rest), squeeze(body[i:j]), body[j + 1:k]


def split_arms(text, what):
    """arms in source order as (attributes, pattern text, body text)"""
    arms, i, n = [], 0, len(text)
    while True:
        while i < n and text[i].isspace():
            i += 1
        if i >= n:
            return arms
        # pattern: up to the top-level `=>`
        depth, j = 0, i
        while j < n:
            c = text[j]
            if c == '"':
                j += 1
                while j < n and text[j] != '"':
                    j += 2 if text[j] == "\\" else 1
            elif c in "([{":
                depth += 1
            elif c in ")]}":
                depth -= 1
            elif depth == 0 and text.startswith("=>", j):
                break
            j += 1
        if j >= n:
            err(f"{what}: arm without `=>`: `{text[i:i + 40]}`")
        pattern = text[i:j]
        j += 2
        while j < n and text[j].isspace():
            j += 1
        if j < n and text[j] == "{":
            k = matching(text, j)
            body = text[j + 1:k]
            j = k + 1
            while j < n and text[j].isspace():
                j += 1
            if j < n and text[j] == ",":
                j += 1
        else:
            parts = top_level_split(text[j:], [","])
            body = parts[0]
            j += len(body) + 1
        attrs = []
        while True:
            pattern = pattern.strip()
            m = re.match(r"#\[([^\]]*)\]", pattern)
            if not m:
                break
            attrs.append(squeeze(m.group(1)))
            pattern = pattern[m.end():]
        arms.append((attrs, pattern, body))
        i = j


def live_arms(text, what):
    out, ignored = [], 0
    for attrs, pattern, body in split_arms(text, what):
        skip = False
        for a in attrs:
            m = re.fullmatch(r'cfg\(feature="([^"]+)"\)', a)
            if not m:
                err(f"{what}: unrecognised attribute #[{a}] on an arm")
            if m.group(1) not in IGNORED_FEATURES:
                err(f"{what}: arm under feature `{m.group(1)}`, which is not one of the explicitly ignored ones")
            skip = True
        if skip:
            ignored += 1
        else:
            out.append((pattern, body))
    return out, ignored


# ------------------------------------------------------------------ patterns
def parse_val(elem, what):
    """one operand pattern -> (Gallina pat, whole-value binder or None, payload binder or None, bool literal)"""
    e = squeeze(elem)
    if e.startswith("Val::"):
        e = e[5:]
    if e == "_" or (BINDER.match(e) and e not in ("true", "false")):
        return "PAny", (None if e.startswith("_") and e == "_" else e), None, None
    if e == "Null":
        return "(PTy TNull)", None, None, None
    m = re.fullmatch(r"([A-Z]\w*)\((.*)\)", e)
    if m and m.group(1) in PAYLOAD:
        inner = m.group(2)
        ty = VARIANTS[m.group(1)]
        if inner in ("_", ".."):
            return f"(PTy {ty})", None, None, None
        if m.group(1) == "Bool" and inner in ("true", "false"):
            return f"(PTy {ty})", None, None, inner
        if BINDER.match(inner):
            return f"(PTy {ty})", None, inner, None
    err(f"{what}: unrecognised operand pattern `{elem.strip()}`")


def parse_op(elem, table, what):
    e = squeeze(elem)
    for pre in ("BinaryOpType::", "UnaryOpType::"):
        if e.startswith(pre):
            e = e[len(pre):]
    if e in table:
        return table[e], None
    if e == "_" or BINDER.match(e):
        return None, (None if e == "_" else e)
    err(f"{what}: unrecognised operator pattern `{elem.strip()}`")


def alternatives(pattern, what):
    """pattern text -> ([alternative texts], guard text or None)"""
    parts = top_level_split(pattern, [" if ", "\tif ", "\nif "])
    if len(parts) > 2:
        err(f"{what}: more than one guard in `{pattern.strip()}`")
    guard = parts[1] if len(parts) == 2 else None
    alts = [a.strip() for a in top_level_split(parts[0], ["|"])]
    return alts, guard


def tuple_elems(alt, arity, what):
    a = alt.strip()
    if a == "_":
        return ["_"] * arity
    if not (a.startswith("(") and matching(a, 0) == len(a) - 1):
        err(f"{what}: pattern `{a}` is not a tuple")
    el = [x for x in top_level_split(a[1:-1], [","])]
    if el and not el[-1].strip():
        el = el[:-1]
    if len(el) != arity:
        err(f"{what}: pattern `{a}` does not have {arity} components")
    return el


def substitute(text, env):
    """replace binder names by their markers (one simultaneous pass), then squeeze"""
    if text is None:
        return None
    names = [n for n in env if n]
    if names:
        rx = re.compile(r"(?<![\w$])(" + "|".join(sorted(map(re.escape, names), key=len, reverse=True)) + r")(?!\w)")
        text = rx.sub(lambda m: env[m.group(1)], text)
    return squeeze(text)


def classify(body, table, what):
    for shape, cls in table:
        if isinstance(shape, str):
            if body == shape:
                return cls
        else:
            m = shape.fullmatch(body)
            if m:
                return cls(m) if callable(cls) else cls
    err(f"{what}: unrecognised arm body `{body[:120]}`")


GUARDS = [("$l.is_empty()", "GLeftEmpty"), ("$r.is_empty()", "GRightEmpty"),
          ("is_function_like($L)&&is_function_like($R)", "GBothFunc")]


def binary_arms(text, what, params, bodies, guards_ok=True):
    """arms of a match on a pair of values -> [(lpat, rpat, guard, class)]"""
    arms, ignored = live_arms(text, what)
    out = []
    for pattern, body in arms:
        alts, guard = alternatives(pattern, what)
        for alt in alts:
            l, r = tuple_elems(alt, 2, what)
            lp, lw, lb, llit = parse_val(l, what)
            rp, rw, rb, rlit = parse_val(r, what)
            if llit or rlit:
                err(f"{what}: boolean literal pattern in `{alt}`")
            env = dict(params)
            for name, marker in ((lw, "$L"), (lb, "$l"), (rw, "$R"), (rb, "$r")):
                if name:
                    env[name] = marker
            g = "GNone"
            if guard is not None:
                if not guards_ok:
                    err(f"{what}: guard on `{alt}`")
                g = classify(substitute(guard, env), GUARDS, what + " guard")
            out.append((lp, rp, g, classify(substitute(body, env), bodies, what)))
    if not out:
        err(f"{what}: no arms")
    return out, ignored


def type_error_body(opname):
    return f"bail!(BinaryOperatorDoesNotOperateOnValues({opname},$L.value_type(),$R.value_type()))"


def arith_bodies(opname, sym, cls):
    return [(f"Val::try_num($l.get(){sym}$r.get())?", f"(ANumArith {cls})"),
            (type_error_body("BinaryOpType::" + opname), "ATypeError")]


ADD_BODIES = arith_bodies("Add", "+", "OpAdd") + [
    ("Str(StrValue::concat($l.clone(),$r.clone()))", "AStrConcat"),
    ('Val::string(format!("{$l}{$r}"))', "ADisplayConcat"),
    ("Val::string($R.clone().to_string()?)", "(AToStringOf SideR)"),
    ("Val::string($L.clone().to_string()?)", "(AToStringOf SideL)"),
    ('Val::string(format!("{$l}{}",$R.clone().to_string()?))', "AStrThenToString"),
    ('Val::string(format!("{}{$r}",$L.clone().to_string()?))', "AToStringThenStr"),
    ("Obj($r.extend_from($l.clone()))", "AObjExtend"),
    ("Val::Arr(ArrValue::extended($l.clone(),$r.clone()))", "AArrExtend"),
]
SUB_BODIES = arith_bodies("Sub", "-", "OpSub")
MUL_BODIES = arith_bodies("Mul", "*", "OpMul") + [
    ("Val::string($l.to_string().repeat($r.get()asusize))", "(AStrRepeat SideL)"),
    ("Val::string($r.to_string().repeat($l.get()asusize))", "(AStrRepeat SideR)"),
]
DIV_BODIES = arith_bodies("Div", "/", "OpDiv")
MOD_BODIES = arith_bodies("Mod", "%", "OpRem") + [
    ("String::into_untyped(std_format(&$l.clone().into_flat(),$R.clone())?)?", "AFormat"),
]
ZERO_BODIES = [("false", "ZFalse"), ("**$r==0.", "ZRightIsZero")]
COMPARE_BODIES = [
    ("$l.cmp($r)", "CmpPayload"),
    ("letai=$l.iter();letbi=$r.iter();for($l,$r)inai.zip(bi){letord=evaluate_compare_op(&$l?,&$r?,$O)?;"
     "if!ord.is_eq(){returnOk(ord);}}$l.len().cmp(&$r.len())", "CmpArr"),
    (type_error_body("$O"), "CmpTypeError"),
]
EQUALS_BODIES = [
    ("ifArrValue::ptr_eq($l,$r){returnOk(true);}if$l.len()!=$r.len(){returnOk(false);}"
     "for($l,$r)in$l.iter().zip($r.iter()){if!equals(&$l?,&$r?)?{returnOk(false);}}Ok(true)", "EArrElems"),
    ('ifObjValue::ptr_eq($l,$r){returnOk(true);}letfields=$l.fields(#[cfg(feature="exp-preserve-order")]false);'
     'iffields!=$r.fields(#[cfg(feature="exp-preserve-order")]false){returnOk(false);}'
     'forfieldinfields{if!equals(&$l.get(field.clone())?.expect("fieldexists"),'
     '&$r.get(field)?.expect("fieldexists"))?{returnOk(false);}}Ok(true)', "EObjFields"),
    ("Ok(primitive_equals($L,$R)?)", "EPrimitive"),
]
PRIM_BODIES = [
    ("$l==$r", "PEqPayload"),
    ("$l.get()==$r.get()", "PEqNum"),
    ("($l.get()-$r.get()).abs()<=f64::EPSILON", "PEqNum"),
    ("true", "PTrue"),
    ("false", "PFalse"),
    (re.compile(r'bail!\("primitiveEqualsoperatesonprimitivetypes,got\w+"\)'), "PBailContainer"),
    ('bail!("cannottestequalityoffunctions")', "PBailFunc"),
]
SHL_RX = re.compile(
    r'if\$r\.get\(\)<0\.0\{bail!\("[^"]*"\)\}letbase=\$l\.truncate_for_bitwise\(\)\?;'
    r'letexp=\$r\.truncate_for_bitwise\(\)\?%\d+;ifexp>=\d+&&base>=\(1i64<<\(\d+-expasu32\)\)\{bail!\("[^"]*"\)\}'
    r'Val::try_num\(base\.wrapping_shl\(expasu32\)asf64\)\?')
SHR_RX = re.compile(
    r'if\$r\.get\(\)<0\.0\{bail!\("[^"]*"\)\}letexp=\((?:\$r\.truncate_for_bitwise\(\)\?|\(\$r\.get\(\)asi64\))&\d+\)asu32;'
    r'Val::try_num\(\$l\.truncate_for_bitwise\(\)\?\.wrapping_shr\(exp\)asf64\)\?')
ORDTEST = {"lt": "IsLt", "gt": "IsGt", "le": "IsLe", "ge": "IsGe"}


def normal_bodies(arm_op):
    """body shapes of evaluate_binary_op_normal; arm_op = Rust name of the operator the arm is for (or None)"""
    def compare(m):
        if m.group(1) != arm_op:
            err(f"evaluate_binary_op_normal: the `{arm_op}` arm passes `{m.group(1)}` to evaluate_compare_op")
        return f"(NCompare {ORDTEST[m.group(2)]})"
    shapes = [
        ("Bool(equals($L,$R)?)", "(NEquals false)"),
        ("Bool(!equals($L,$R)?)", "(NEquals true)"),
        (re.compile(r"Bool\(evaluate_compare_op\(\$L,\$R,(\w+)\)\?\.is_(lt|gt|le|ge)\(\)\)"), compare),
        ("Bool($r.has_field_ex($l.clone().into_flat(),true))", "NIn"),
        ("Bool(*$l&&*$r)", "NBoolAnd"),
        ("Bool(*$l||*$r)", "NBoolOr"),
        (SHL_RX, "NShl"),
        (SHR_RX, "NShr"),
        (type_error_body("$O"), "NTypeError"),
    ]
    for f, c in (("add", "FAdd"), ("sub", "FSub"), ("mul", "FMul"), ("div", "FDiv"), ("mod", "FMod")):
        shapes.append((f"evaluate_{f}_op($L,$R)?", f"(NCall {c})"))
    for sym, c in (("&", "OpAnd"), ("|", "OpOr"), ("^", "OpXor")):
        shapes.append((f"Val::try_num(($l.truncate_for_bitwise()?{sym}$r.truncate_for_bitwise()?)asf64)?", f"(NBit {c})"))
    return shapes


UNARY_BODIES = [
    ("Val::Num(*$v)", "UaKeep"),
    ("Val::try_num(-$v.get())?", "UaNegate"),
    ("Bool(!$v)", "UaNot"),
    ("Val::try_num(!$v.truncate_for_bitwise()?asf64)?", "UaBitNot"),
    ("Val::try_num(!($v.get()asi64)asf64)?", "UaBitNot"),
    ("bail!(UnaryOperatorDoesNotOperateOnType($O,$V.value_type()))", "UaTypeError"),
]


def expect_skeleton(got, allowed, what):
    for shape, tag in allowed:
        if (shape.fullmatch(got) if not isinstance(shape, str) else got == shape):
            return tag
    err(f"{what}: unrecognised statements around the match: `{got[:160]}`")


def header(name, params):
    return r"\bfn\s+" + name + r"\s*\(\s*" + r"\s*,\s*".join(params) + r"\s*,?\s*\)[^{;]*\{"


def coq_list(items, indent="  "):
    if not items:
        return "[]"
    return "[\n" + ";\n".join(indent + "  " + i for i in items) + "\n" + indent + "]"


DIVZERO_TEST = "ifis_attempt_to_divide_by_zero(a,b){bail!(DivisionByZero);}"


@generator("GenOps")
def gen_ops():
    op = src(OPERATOR_RS)
    val = src(VAL_RS)
    expr = src(EXPR_RS)
    ignored_total = 0

    # ---- the operator enumerations are the ones the tables are indexed by
    def enum_variants(name):
        m = re.search(r"pub enum " + name + r"\s*\{", expr)
        if not m:
            err(f"enum {name} not found")
        i = expr.index("{", m.start())
        body = strip_comments(expr[i + 1:matching(expr, i)])
        vs = []
        for part in top_level_split(body, [","]):
            p = part.strip()
            if not p:
                continue
            feats = re.findall(r'#\[cfg\(feature\s*=\s*"([^"]+)"\)\]', p)
            p = re.sub(r"#\[[^\]]*\]", "", p).strip()
            if not re.fullmatch(r"\w+", p):
                err(f"enum {name}: unrecognised variant `{p}`")
            if feats:
                if any(f not in IGNORED_FEATURES for f in feats):
                    err(f"enum {name}: variant {p} under an unknown feature")
                continue
            vs.append(p)
        return vs
    if sorted(enum_variants("BinaryOpType")) != sorted(BINOPS):
        err("BinaryOpType does not have exactly the 19 operators the tables are indexed by")
    if sorted(enum_variants("UnaryOpType")) != sorted(UNOPS):
        err("UnaryOpType does not have exactly the 4 operators the tables are indexed by")
    m = re.search(r"pub enum Val\s*\{", val)
    if not m:
        err("enum Val not found")
    i = val.index("{", m.start())
    vbody = strip_comments(val[i + 1:matching(val, i)])
    vs = []
    for part in top_level_split(vbody, [","]):
        p = part.strip()
        if not p:
            continue
        feats = re.findall(r'#\[cfg\(feature\s*=\s*"([^"]+)"\)\]', p)
        p = re.sub(r"#\[[^\]]*\]", "", p).strip()
        mm = re.fullmatch(r"(\w+)(\(.*\))?", p, re.S)
        if not mm:
            err(f"enum Val: unrecognised variant `{p[:40]}`")
        if feats:
            if any(f not in IGNORED_FEATURES for f in feats):
                err(f"enum Val: variant {mm.group(1)} under an unknown feature")
            continue
        vs.append((mm.group(1), bool(mm.group(2))))
    if sorted(vs) != sorted((k, k in PAYLOAD) for k in VARIANTS):
        err("enum Val does not have exactly the 7 variants Null Bool Num Str Arr Obj Func")

    def two(name, bodies, skeletons, params=("a", "b")):
        nonlocal ignored_total
        body = fn_body(op, header(name, [p + r"\s*:\s*&Val" for p in params]), name)
        skel, scrut, arms = split_match(body, name)
        if scrut != "(" + ",".join(params) + ")":
            err(f"{name}: the match is not on ({', '.join(params)}) but on `{scrut}`")
        tag = expect_skeleton(skel, skeletons, name)
        out, ign = binary_arms(arms, name, {params[0]: "$L", params[1]: "$R"}, bodies)
        ignored_total += ign
        return out, tag

    plain = [("useVal::*;Ok(MATCH)", True)]
    guarded = [("useVal::*;" + DIVZERO_TEST + "Ok(MATCH)", "true"),
               (re.compile(r"useVal::\*;let(\w+)=MATCH;" + re.escape(DIVZERO_TEST) + r"Ok\(\1\)"), "false")]
    add, _ = two("evaluate_add_op", ADD_BODIES, plain)
    sub, _ = two("evaluate_sub_op", SUB_BODIES, plain)
    mul, _ = two("evaluate_mul_op", MUL_BODIES, plain)
    div, div_first = two("evaluate_div_op", DIV_BODIES, guarded)
    mod, mod_first = two("evaluate_mod_op", MOD_BODIES, guarded)
    zero, _ = two("is_attempt_to_divide_by_zero", ZERO_BODIES, [("useVal::*;MATCH", True)])
    if any(g != "GNone" for _, _, g, _ in sub + mul + div + mod + zero):
        err("guard in an arm of sub/mul/div/mod/is_attempt_to_divide_by_zero")

    # ---- evaluate_compare_op(a, b, op)
    body = fn_body(op, header("evaluate_compare_op", [r"a\s*:\s*&Val", r"b\s*:\s*&Val", r"op\s*:\s*BinaryOpType"]),
                   "evaluate_compare_op")
    skel, scrut, arms = split_match(body, "evaluate_compare_op")
    if scrut != "(a,b)" or skel != "useVal::*;Ok(MATCH)":
        err(f"evaluate_compare_op: unrecognised statements around the match: `{skel[:120]}` on `{scrut}`")
    cmp_arms, ign = binary_arms(arms, "evaluate_compare_op", {"a": "$L", "b": "$R", "op": "$O"}, COMPARE_BODIES,
                                guards_ok=False)
    ignored_total += ign

    # ---- evaluate_binary_op_normal(a, op, b)
    name = "evaluate_binary_op_normal"
    body = fn_body(op, header(name, [r"a\s*:\s*&Val", r"op\s*:\s*BinaryOpType", r"b\s*:\s*&Val"]), name)
    skel, scrut, arms = split_match(body, name)
    if scrut != "(a,op,b)" or skel != "useBinaryOpType::*;useVal::*;Ok(MATCH)":
        err(f"{name}: unrecognised statements around the match: `{skel[:120]}` on `{scrut}`")
    live, ign = live_arms(arms, name)
    ignored_total += ign
    normal = []
    for pattern, abody in live:
        alts, guard = alternatives(pattern, name)
        if guard is not None:
            err(f"{name}: guard on `{pattern.strip()}`")
        for alt in alts:
            l, o, r = tuple_elems(alt, 3, name)
            lp, lw, lb, llit = parse_val(l, name)
            rp, rw, rb, rlit = parse_val(r, name)
            if llit or rlit:
                err(f"{name}: boolean literal pattern in `{alt}`")
            oc, ob = parse_op(o, BINOPS, name)
            env = {"a": "$L", "b": "$R", "op": "$O"}
            for nm, marker in ((lw, "$L"), (lb, "$l"), (rw, "$R"), (rb, "$r"), (ob, "$O")):
                if nm:
                    env[nm] = marker
            rust_op = next((k for k, v in BINOPS.items() if v == oc), None)
            cls = classify(substitute(abody, env), normal_bodies(rust_op), name)
            normal.append((lp, f"(OOp {oc})" if oc else "OAny", rp, cls))

    # ---- evaluate_unary_op(op, b)
    name = "evaluate_unary_op"
    body = fn_body(op, header(name, [r"op\s*:\s*UnaryOpType", r"b\s*:\s*&Val"]), name)
    skel, scrut, arms = split_match(body, name)
    if scrut != "(op,b)" or skel != "useUnaryOpType::*;useVal::*;Ok(MATCH)":
        err(f"{name}: unrecognised statements around the match: `{skel[:120]}` on `{scrut}`")
    live, ign = live_arms(arms, name)
    ignored_total += ign
    unary = []
    for pattern, abody in live:
        alts, guard = alternatives(pattern, name)
        if guard is not None:
            err(f"{name}: guard on `{pattern.strip()}`")
        for alt in alts:
            o, v = tuple_elems(alt, 2, name)
            vp, vw, vb, vlit = parse_val(v, name)
            if vlit:
                err(f"{name}: boolean literal pattern in `{alt}`")
            oc, ob = parse_op(o, UNOPS, name)
            env = {"op": "$O", "b": "$V"}
            for nm, marker in ((vw, "$V"), (vb, "$v"), (ob, "$O")):
                if nm:
                    env[nm] = marker
            unary.append((f"(UOp {oc})" if oc else "UAnyOp", vp, classify(substitute(abody, env), UNARY_BODIES, name)))

    # ---- evaluate_binary_op_special(ctx, a, op, b)
    name = "evaluate_binary_op_special"
    body = fn_body(op, header(name, [r"ctx\s*:\s*Context", r"a\s*:\s*&Expr", r"op\s*:\s*BinaryOpType",
                                     r"b\s*:\s*&Expr"]), name)
    skel, scrut, arms = split_match(body, name)
    if scrut != "(evaluate(ctx.clone(),a)?,op,b)" or skel != "useBinaryOpType::*;useVal::*;Ok(MATCH)":
        err(f"{name}: unrecognised statements around the match: `{skel[:120]}` on `{scrut}`")
    live, ign = live_arms(arms, name)
    ignored_total += ign
    special = []
    for pattern, abody in live:
        alts, guard = alternatives(pattern, name)
        if guard is not None:
            err(f"{name}: guard on `{pattern.strip()}`")
        for alt in alts:
            l, o, r = tuple_elems(alt, 3, name)
            lp, lw, lb, llit = parse_val(l, name)
            oc, ob = parse_op(o, BINOPS, name)
            e = squeeze(r)
            if not (e == "_" or BINDER.match(e)):
                err(f"{name}: the right operand is an unevaluated expression; pattern `{r.strip()}` inspects it")
            if llit:
                lpat = f"(LBool {llit})"
            elif lp == "PAny":
                lpat = "LAny"
            else:
                err(f"{name}: unrecognised left pattern `{l.strip()}`")
            env = {"op": "$O"}
            for nm, marker in ((lw, "$L"), (lb, "$l"), (ob, "$O"), (None if e.startswith("_") else e, "$E")):
                if nm:
                    env[nm] = marker
            cls = classify(substitute(abody, env),
                           [("Val::Bool(true)", "(SShort true)"), ("Val::Bool(false)", "(SShort false)"),
                            ("evaluate_binary_op_normal(&$L,$O,&evaluate(ctx,$E)?)?", "SNormal")], name)
            special.append((lpat, f"(OOp {oc})" if oc else "OAny", cls))

    # ---- val.rs: equals, primitive_equals, is_function_like
    if squeeze(fn_body(val, header("is_function_like", [r"val\s*:\s*&Val"]), "is_function_like")) != "matches!(val,Val::Func(_))":
        err("is_function_like is not `matches!(val, Val::Func(_))`")
    name = "equals"
    body = fn_body(val, r"\bpub\s+" + header(name, [r"val_a\s*:\s*&Val", r"val_b\s*:\s*&Val"]), name)
    skel, scrut, arms = split_match(body, name)
    if scrut != "(val_a,val_b)" or skel != "ifval_a.value_type()!=val_b.value_type(){returnOk(false);}MATCH":
        err(f"{name}: unrecognised statements around the match: `{skel[:120]}` on `{scrut}`")
    eq_arms, ign = binary_arms(arms, name, {"val_a": "$L", "val_b": "$R"}, EQUALS_BODIES, guards_ok=False)
    ignored_total += ign
    name = "primitive_equals"
    body = fn_body(val, r"\bpub\s+" + header(name, [r"val_a\s*:\s*&Val", r"val_b\s*:\s*&Val"]), name)
    skel, scrut, arms = split_match(body, name)
    if scrut != "(val_a,val_b)" or skel != "Ok(MATCH)":
        err(f"{name}: unrecognised statements around the match: `{skel[:120]}` on `{scrut}`")
    prim_arms, ign = binary_arms(arms, name, {"val_a": "$L", "val_b": "$R"}, PRIM_BODIES)
    ignored_total += ign
    # value_type must map each variant to its own ValType (equals' first test compares them)
    vt = fn_body(val, r"\bpub\s+const\s+fn\s+value_type\s*\(\s*&self\s*\)[^{;]*\{", "Val::value_type")
    skel, scrut, arms = split_match(vt, "Val::value_type")
    if scrut != "self" or skel != "MATCH":
        err("Val::value_type: unrecognised shape")
    live, ign = live_arms(arms, "Val::value_type")
    ignored_total += ign
    seen = set()
    for pattern, abody in live:
        mm = re.fullmatch(r"Self::(\w+)(?:\((?:\.\.|_)\))?", squeeze(pattern))
        if not mm or squeeze(abody) != "ValType::" + mm.group(1) or mm.group(1) not in VARIANTS:
            err(f"Val::value_type: unrecognised arm `{pattern.strip()} => {abody.strip()}`")
        seen.add(mm.group(1))
    if seen != set(VARIANTS):
        err("Val::value_type does not cover exactly the 7 variants")

    def a2(rows):
        return coq_list([f"Arm2 {l} {r} {g} {c}" for l, r, g, c in rows])

    return (
        "From Coq Require Import List Bool.\n"
        "From JrV Require Import Sem.Syntax Common.OpClass.\n"
        "Import ListNotations.\n"
        "(* arms in source order; the first arm whose patterns and guard accept the operands is taken.\n"
        f"   {ignored_total} arms under #[cfg(feature = \"exp-bigint\" / \"exp-null-coaelse\")] were left out. *)\n"
        f"Definition gen_add_arms : list arm2 := {a2(add)}.\n"
        f"Definition gen_sub_arms : list arm2 := {a2(sub)}.\n"
        f"Definition gen_mul_arms : list arm2 := {a2(mul)}.\n"
        f"Definition gen_div_arms : list arm2 := {a2(div)}.\n"
        f"Definition gen_mod_arms : list arm2 := {a2(mod)}.\n"
        "(* is_attempt_to_divide_by_zero, and whether evaluate_div_op / evaluate_mod_op test it BEFORE their match *)\n"
        f"Definition gen_divzero_arms : list zarm := {coq_list([f'ZArm {l} {r} {c}' for l, r, _, c in zero])}.\n"
        f"Definition gen_div_guard_first : bool := {div_first}.\n"
        f"Definition gen_mod_guard_first : bool := {mod_first}.\n"
        f"Definition gen_compare_arms : list carm := {coq_list([f'CArm {l} {r} {c}' for l, r, _, c in cmp_arms])}.\n"
        f"Definition gen_normal_arms : list narm := {coq_list([f'NArm {l} {o} {r} {c}' for l, o, r, c in normal])}.\n"
        f"Definition gen_unary_arms : list uarm := {coq_list([f'UArm {o} {v} {c}' for o, v, c in unary])}.\n"
        "(* evaluate_binary_op_special: match (evaluate(ctx.clone(), a)?, op, b) - the left operand is evaluated\n"
        "   first (its error propagates), the right one only by the SNormal arm *)\n"
        f"Definition gen_special_arms : list sarm := {coq_list([f'SArm {l} {o} {c}' for l, o, c in special])}.\n"
        "(* val.rs equals: `if val_a.value_type() != val_b.value_type() { return Ok(false) }`, then *)\n"
        f"Definition gen_equals_arms : list earm := {coq_list([f'EArm {l} {r} {c}' for l, r, _, c in eq_arms])}.\n"
        f"Definition gen_primitive_equals_arms : list parm := {coq_list([f'PArm {l} {r} {g} {c}' for l, r, g, c in prim_arms])}.\n"
    )
