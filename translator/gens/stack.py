"""GenStack.v: the four state transformers of crates/jrsonnet-evaluator/src/stack.rs, translated
statement by statement into Gallina functions over the pair (current_depth, max_stack_size).

The translated subset of Rust is exactly what those functions use: inside
`STACK_LIMIT.with(|limit| ...)`, a sequence of
    let X = limit.F.get();          limit.F.set(E);
    if A < B { ...; Ok(..) } else { Err(..) }        (also <=, >, >=, ==)
    <final expression>  Ok(..) | Err(..) | StackDepthLimitOverrideGuard { old_limit }
with E, A, B built from let-bound names, function parameters, `self.old_limit`, `limit.F.get()`,
integer literals, `+`, `-` (usize subtraction: saturating at 0 is NOT assumed; `-` becomes Nat.sub
and C04's theorems carry the `cur > 0` side condition where it matters).
Anything else raises TranslateError (fail closed).
"""
import re

from gen import TranslateError, generator, src

FIELDS = {"current_depth": "cur", "max_stack_size": "max"}


def body_of(text, header_re, what):
    m = re.search(header_re, text)
    if not m:
        raise TranslateError(f"stack.rs: {what} not found")
    i = text.index("{", m.end() - 1)
    depth, j = 0, i
    while j < len(text):
        if text[j] == "{":
            depth += 1
        elif text[j] == "}":
            depth -= 1
            if depth == 0:
                return text[i + 1:j]
        j += 1
    raise TranslateError(f"stack.rs: unbalanced braces in {what}")


def closure_body(body, what):
    """the argument of STACK_LIMIT.with(|limit| ARG) as a statement string"""
    body = re.sub(r"//[^\n]*", "", body)
    m = re.search(r"STACK_LIMIT\s*\.\s*with\s*\(\s*\|\s*limit\s*\|", body)
    if not m:
        raise TranslateError(f"stack.rs: {what}: no STACK_LIMIT.with(|limit| ..)")
    rest = body[m.end():].strip()
    # strip the closing `)` of with( .. ) and an optional `;`
    rest = rest.rstrip().rstrip(";").rstrip()
    if not rest.endswith(")"):
        raise TranslateError(f"stack.rs: {what}: cannot find the end of the closure")
    rest = rest[:-1].strip()
    if rest.startswith("{"):
        if not rest.endswith("}"):
            raise TranslateError(f"stack.rs: {what}: closure block not closed")
        rest = rest[1:-1]
    return rest


class Tr:
    """symbolic execution of the statement list; state = Gallina terms for cur and max"""

    def __init__(self, params):
        self.env = dict(params)        # rust name -> Gallina term

    def expr(self, e):
        e = e.strip()
        # binary + / - at top level, left associative
        depth = 0
        for k in range(len(e) - 1, -1, -1):
            c = e[k]
            if c == ")":
                depth += 1
            elif c == "(":
                depth -= 1
            elif depth == 0 and c in "+-" and k > 0:
                l, r = self.expr(e[:k]), self.expr(e[k + 1:])
                return f"({l} {c} {r})"
        if e.startswith("(") and e.endswith(")"):
            return self.expr(e[1:-1])
        if re.fullmatch(r"\d+", e):
            return e
        m = re.fullmatch(r"limit\s*\.\s*(\w+)\s*\.\s*get\s*\(\s*\)", e)
        if m:
            if m.group(1) not in FIELDS:
                raise TranslateError(f"stack.rs: unknown field {m.group(1)}")
            return self.st[FIELDS[m.group(1)]]
        if e in self.env:
            return self.env[e]
        raise TranslateError(f"stack.rs: untranslatable expression `{e}`")

    def block(self, stmts, st, result_kind):
        """-> Gallina term of type  option (nat * nat)  (result_kind 'result')
                                or  (nat * nat) * nat   (result_kind 'guard': new state, saved old limit)
                                or  nat * nat           (result_kind 'unit')"""
        self.st = dict(st)
        s = stmts.strip()
        while s:
            m = re.match(r"let\s+(\w+)\s*=\s*([^;]+);", s)
            if m:
                self.env[m.group(1)] = self.expr(m.group(2))
                s = s[m.end():].strip()
                continue
            m = re.match(r"limit\s*\.\s*(\w+)\s*\.\s*set\s*\(", s)
            if m:
                depth, j = 1, m.end()
                while depth:
                    depth += {"(": 1, ")": -1}.get(s[j], 0)
                    j += 1
                arg = s[m.end():j - 1]
                if m.group(1) not in FIELDS:
                    raise TranslateError(f"stack.rs: unknown field {m.group(1)}")
                val = self.expr(arg)
                self.st[FIELDS[m.group(1)]] = val
                s = s[j:].strip()
                if s.startswith(";"):
                    s = s[1:].strip()
                continue
            m = re.match(r"if\s+(.+?)\s*(<=|>=|==|<|>)\s*(.+?)\s*\{", s)
            if m:
                a, op, b = self.expr(m.group(1)), m.group(2), self.expr(m.group(3))
                then_s, rest = self.braced(s[m.end() - 1:])
                rest = rest.strip()
                if rest.startswith("else"):
                    else_s, rest = self.braced(rest[4:].strip())
                    if rest.strip():
                        raise TranslateError("stack.rs: statements after if/else")
                else:
                    # early return: `if c { return E; } REST`  =  `if c { E } else { REST }`
                    mr = re.fullmatch(r"return\s+(.+?)\s*;?", then_s.strip(), re.S)
                    if not mr:
                        raise TranslateError("stack.rs: `if` without `else` whose body is not a `return`")
                    then_s, else_s = mr.group(1), rest
                cond = {"<": f"Nat.ltb {a} {b}", "<=": f"Nat.leb {a} {b}", ">": f"Nat.ltb {b} {a}",
                        ">=": f"Nat.leb {b} {a}", "==": f"Nat.eqb {a} {b}"}[op]
                saved_env, saved_st = dict(self.env), dict(self.st)
                t = self.block(then_s, saved_st, result_kind)
                self.env = dict(saved_env)
                e = self.block(else_s, saved_st, result_kind)
                self.env = saved_env
                return f"(if {cond} then {t} else {e})"
            # final expression
            pair = f"({self.st['cur']}, {self.st['max']})"
            if result_kind == "result" and re.fullmatch(r"Ok\s*\(.*\)", s, re.S):
                return f"Some {pair}"
            if result_kind == "result" and re.fullmatch(r"Err\s*\(.*\)", s, re.S):
                return "None" if (self.st == self.st0) else f"(* state changed on the error path *) Some_then_err {pair}"
            if result_kind == "guard":
                m = re.fullmatch(r"StackDepthLimitOverrideGuard\s*\{\s*old_limit\s*(?::\s*(.+?))?\s*,?\s*\}", s, re.S)
                if m:
                    old = self.expr(m.group(1)) if m.group(1) else self.env.get("old_limit")
                    if old is None:
                        raise TranslateError("stack.rs: old_limit not bound")
                    return f"({pair}, {old})"
            raise TranslateError(f"stack.rs: untranslatable statement `{s[:60]}`")
        if result_kind == "unit":
            return f"({self.st['cur']}, {self.st['max']})"
        raise TranslateError("stack.rs: block without a final expression")

    @staticmethod
    def braced(s):
        s = s.strip()
        if not s.startswith("{"):
            raise TranslateError("stack.rs: `{` expected")
        depth = 0
        for j, c in enumerate(s):
            if c == "{":
                depth += 1
            elif c == "}":
                depth -= 1
                if depth == 0:
                    return s[1:j], s[j + 1:]
        raise TranslateError("stack.rs: unbalanced block")


def translate(text, header_re, what, params, result_kind):
    body = closure_body(body_of(text, header_re, what), what)
    body = re.sub(r"//[^\n]*", "", body)
    tr = Tr(params)
    tr.st0 = {"cur": "c", "max": "m"}
    term = tr.block(body, tr.st0, result_kind)
    if "Some_then_err" in term:
        # an Err path that has already changed the counters: expressible, and exactly what must not happen
        term = term.replace("(* state changed on the error path *) Some_then_err", "Some")
        raise TranslateError(f"stack.rs: {what} changes the counters before failing: `{term}`")
    return term


@generator("GenStack")
def gen_stack():
    text = src("crates/jrsonnet-evaluator/src/stack.rs")
    enter = translate(text, r"pub fn check_depth\s*\(\s*\)[^{]*\{", "check_depth", {}, "result")
    leave = translate(text, r"impl Drop for StackDepthGuard\s*\{\s*fn drop\s*\(&mut self\)\s*\{", "StackDepthGuard::drop",
                      {}, "unit")
    limit = translate(text, r"pub fn limit_stack_depth\s*\(\s*depth_limit\s*:\s*usize\s*\)[^{]*\{", "limit_stack_depth",
                      {"depth_limit": "n"}, "guard")
    unlimit = translate(text, r"impl Drop for StackDepthLimitOverrideGuard\s*\{\s*fn drop\s*\(&mut self\)\s*\{",
                        "StackDepthLimitOverrideGuard::drop", {"self.old_limit": "old"}, "unit")
    return (
        "From Coq Require Import Arith.\n"
        "(* state = (current_depth, max_stack_size) of the thread-local STACK_LIMIT *)\n"
        "(* check_depth: Some = Ok(guard) with the new state, None = Err(StackOverflowError), state unchanged *)\n"
        f"Definition gen_check_depth (c m : nat) : option (nat * nat) :=\n  {enter}.\n"
        "(* Drop for StackDepthGuard *)\n"
        f"Definition gen_guard_drop (c m : nat) : nat * nat :=\n  {leave}.\n"
        "(* limit_stack_depth n: new state and the old limit saved in the guard *)\n"
        f"Definition gen_limit (n c m : nat) : (nat * nat) * nat :=\n  {limit}.\n"
        "(* Drop for StackDepthLimitOverrideGuard *)\n"
        f"Definition gen_limit_drop (old c m : nat) : nat * nat :=\n  {unlimit}.\n"
    )
