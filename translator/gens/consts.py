"""GenConsts.v: thresholds and limits the models mention."""
from gen import generator, one, src


@generator("GenConsts")
def gen_consts():
    arr = src("crates/jrsonnet-evaluator/src/arr/mod.rs")
    val = src("crates/jrsonnet-evaluator/src/val.rs")
    stack = src("crates/jrsonnet-evaluator/src/stack.rs")
    conv = src("crates/jrsonnet-evaluator/src/typed/conversions.rs")
    thr = int(one(r"const ARR_EXTEND_THRESHOLD: usize = (\d+);", arr, "ARR_EXTEND_THRESHOLD"))
    # the comparison that uses it must still be `a.len() + b.len() > ARR_EXTEND_THRESHOLD`
    one(r"a\.len\(\) \+ b\.len\(\) > ARR_EXTEND_THRESHOLD", arr, "extended threshold comparison")
    sthr = int(one(r"const STRING_EXTEND_THRESHOLD: usize = (\d+);", val, "STRING_EXTEND_THRESHOLD"))
    one(r"a\.len\(\) \+ b\.len\(\) < STRING_EXTEND_THRESHOLD", val, "string threshold comparison")
    maxstack = int(one(r"max_stack_size: Cell::new\((\d+)\)", stack, "default max stack"))
    one(r"pub const MAX_SAFE_INTEGER: f64 = \(\(1u64 << \(f64::MANTISSA_DIGITS\)\) - 1\) as f64;", conv,
        "MAX_SAFE_INTEGER")
    one(r"pub const MIN_SAFE_INTEGER: f64 = \(-\(\(1i64 << \(f64::MANTISSA_DIGITS\)\) - 1\)\) as f64;", conv,
        "MIN_SAFE_INTEGER")
    return (
        "From Coq Require Import NArith ZArith.\n"
        f"Definition arr_extend_threshold : N := {thr}%N.\n"
        f"Definition string_extend_threshold : N := {sthr}%N.\n"
        f"Definition default_max_stack : N := {maxstack}%N.\n"
        "Definition max_safe_integer : Z := (2 ^ 53 - 1)%Z.\n"
        "Definition min_safe_integer : Z := (- (2 ^ 53 - 1))%Z.\n"
    )
