"""GenFmt.v: the decision kernels of crates/jrsonnet-formatter/src/children.rs (and the line
preparation of the block-comment arm of comments.rs), translated statement by statement into
Gallina over the vocabulary of coq/theories/C19/Model.v.

children.rs
  count_newlines_before / count_newlines_after : `let mut n = 0; for t in tt[.iter().rev()] { match t {
        Ok(t) => match t.kind() { TriviaKind::K [| K]* => ARM, ..., _ => ARM }, Err(_) => ARM } } n`
        with ARM a sequence of `n += E;` optionally ended by `break` -> a Fixpoint over `list tr`
  should_start_with_newline : `let count = E; (count >= a, count >= b,)`
  children : the `let mut` state variables, the `for item in items` body (symbolically executed once per
        item constructor of C19.Model.item; conditions on `item` are decided by the constructor, every
        other condition becomes a Gallina `if`), and the statements after the loop
comments.rs (MultiLineComment arm)
  the delimiters, the doc test, split / map / skip_while / pop-while pipeline, the single-line test,
  the take_while predicate of common_ws_prefix, the seed / skip / filter of the padding fold and of the
  strip loop.  The p!(..) print statements are NOT translated (they stay with the differential run).

The Rust subset is what those functions use; anything else raises TranslateError (fail closed).
"""
import re

from gen import TranslateError, generator, src

CH = "crates/jrsonnet-formatter/src/children.rs"
CM = "crates/jrsonnet-formatter/src/comments.rs"

TOKEN = re.compile(r"""\s*(?:(//[^\n]*)|("(?:[^"\\]|\\.)*")|(b?'(?:[^'\\]|\\.)')|([A-Za-z_]\w*!?)|(\d+)|"""
                   r"""(=>|->|::|\+=|-=|==|!=|>=|<=|&&|\|\||\.\.)|(\S))""")


def err(msg):
    raise TranslateError("fmtkernels: " + msg)


def toks(text):
    out, i = [], 0
    text = text.rstrip()
    while i < len(text):
        m = TOKEN.match(text, i)
        if not m:
            err(f"cannot tokenise at {text[i:i + 30]!r}")
        i = m.end()
        if m.group(1) is not None:
            continue
        out.append(m.group(m.lastindex))
    return out


def C(s):
    """canonical spelling of a Rust fragment"""
    return " ".join(toks(s))


OPEN = {"(": ")", "[": "]", "{": "}"}
CLOSE = {")", "]", "}"}


def match_close(t, i):
    """t[i] is an opening bracket; index of its partner"""
    depth = 0
    for j in range(i, len(t)):
        if t[j] in OPEN:
            depth += 1
        elif t[j] in CLOSE:
            depth -= 1
            if depth == 0:
                return j
    err("unbalanced brackets")


def split_top(t, sep):
    parts, cur, depth = [], [], 0
    for x in t:
        if x in OPEN:
            depth += 1
        elif x in CLOSE:
            depth -= 1
        if depth == 0 and x == sep:
            parts.append(cur)
            cur = []
        else:
            cur.append(x)
    parts.append(cur)
    return parts


def fn_body(t, name, what):
    for i in range(len(t) - 1):
        if t[i] == "fn" and t[i + 1] == name:
            j = i
            # the body is the first `{` at bracket depth 0 after the parameter list
            depth = 0
            while j < len(t):
                if t[j] in ("(", "["):
                    depth += 1
                elif t[j] in (")", "]"):
                    depth -= 1
                elif t[j] == "{" and depth == 0:
                    e = match_close(t, j)
                    return t[i + 2:j], t[j + 1:e]
                j += 1
    err(f"{what}: fn {name} not found")


# ---------------------------------------------------------------- statements
def parse_block(t):
    """token list of a block body -> list of statements"""
    out, i = [], 0
    n = len(t)
    while i < n:
        x = t[i]
        if x == ";":
            i += 1
            continue
        if x == "let":
            j = i
            depth = 0
            while j < n and not (t[j] == ";" and depth == 0):
                if t[j] in OPEN:
                    depth += 1
                elif t[j] in CLOSE:
                    depth -= 1
                j += 1
            if j >= n:
                err("`let` without `;`")
            body = t[i + 1:j]
            eq = None
            depth = 0
            for k, y in enumerate(body):
                if y in OPEN:
                    depth += 1
                elif y in CLOSE:
                    depth -= 1
                elif y == "=" and depth == 0:
                    eq = k
                    break
            if eq is None:
                err("`let` without initialiser")
            out.append(("let", body[:eq], body[eq + 1:]))
            i = j + 1
            continue
        if x == "if":
            st, i = parse_if(t, i)
            out.append(st)
            continue
        if x in ("for", "while"):
            j = i
            depth = 0
            while not (t[j] == "{" and depth == 0):
                if t[j] in ("(", "["):
                    depth += 1
                elif t[j] in (")", "]"):
                    depth -= 1
                j += 1
            e = match_close(t, j)
            out.append((x, t[i + 1:j], t[j + 1:e]))
            i = e + 1
            continue
        if x == "match":
            j = i
            while t[j] != "{":
                j += 1
            e = match_close(t, j)
            out.append(("match", t[i + 1:j], t[j + 1:e]))
            i = e + 1
            continue
        if x in ("continue", "break") and i + 1 < n and t[i + 1] == ";":
            out.append((x,))
            i += 2
            continue
        if x == "fn":
            j = i
            while t[j] != "{":
                j += 1
            e = match_close(t, j)
            out.append(("fn", t[i + 1], t[i + 2:j], t[j + 1:e]))
            i = e + 1
            continue
        # expression statement, or the final expression
        j = i
        depth = 0
        while j < n and not (t[j] == ";" and depth == 0):
            if t[j] in OPEN:
                depth += 1
            elif t[j] in CLOSE:
                depth -= 1
            j += 1
        out.append(("expr" if j < n else "final", t[i:j]))
        i = j + 1
    return out


def parse_if(t, i):
    """-> (("if", [(cond, block)..], else_block_or_None), next index)"""
    arms, els = [], None
    while True:
        assert t[i] == "if"
        j = i + 1
        depth = 0
        while not (t[j] == "{" and depth == 0):
            if t[j] in ("(", "["):
                depth += 1
            elif t[j] in (")", "]"):
                depth -= 1
            j += 1
        e = match_close(t, j)
        arms.append((t[i + 1:j], t[j + 1:e]))
        i = e + 1
        if i < len(t) and t[i] == "else":
            if t[i + 1] == "if":
                i += 1
                continue
            if t[i + 1] != "{":
                err("`else` without block")
            e = match_close(t, i + 1)
            els = t[i + 2:e]
            i = e + 1
        break
    return ("if", arms, els), i


KINDS = {"Whitespace": "Ws", "MultiLineComment": "MLc", "ErrorCommentTooShort": "ErrShort",
         "ErrorCommentUnterminated": "ErrUnterm", "SingleLineHashComment": "HashC",
         "SingleLineSlashComment": "SlashC"}


def kind_of(t, what):
    if len(t) == 3 and t[0] == "TriviaKind" and t[1] == "::" and t[2] in KINDS:
        return KINDS[t[2]]
    err(f"{what}: unknown trivia kind `{' '.join(t)}`")


def char_code(lit, what):
    m = re.fullmatch(r"b?'(\\?.)'", lit)
    if not m:
        err(f"{what}: not a character literal `{lit}`")
    c = m.group(1)
    table = {"\\n": 10, "\\t": 9, "\\r": 13, "\\\\": 92, "\\'": 39}
    if c in table:
        return table[c]
    if len(c) == 1:
        return ord(c)
    err(f"{what}: unknown escape `{lit}`")


def str_lit(lit, what):
    m = re.fullmatch(r'"([^"\\]*)"', lit)
    if not m:
        err(f"{what}: not a plain string literal `{lit}`")
    return "[" + "; ".join(str(ord(c)) for c in m.group(1)) + "]"


# ---------------------------------------------------------------- count_newlines_*
def count_expr(t, tokvar, what):
    s = " ".join(t)
    if re.fullmatch(r"\d+", s):
        return s
    m = re.fullmatch(re.escape(C(f"{tokvar}.text().bytes().filter(|b| *b == ")) + r" (b'(?:\\.|.)') " +
                     re.escape(C(").count()")), s)
    if m:
        return f"length (filter (fun b => b =? {char_code(m.group(1), what)}) text)"
    err(f"{what}: untranslatable count `{s}`")


def count_arm(t, acc, tokvar, what):
    """-> (list of addends, breaks?)"""
    if t and t[0] == "{":
        if match_close(t, 0) != len(t) - 1:
            err(f"{what}: arm `{' '.join(t)}`")
        t = t[1:-1]
    adds, brk = [], False
    for st in parse_block(t):
        if brk:
            err(f"{what}: statement after break")
        if st[0] in ("expr", "final") and len(st[1]) >= 3 and st[1][0] == acc and st[1][1] == "+=":
            adds.append(count_expr(st[1][2:], tokvar, what))
        elif st == ("break",) or st == ("final", ["break"]):
            brk = True
        else:
            err(f"{what}: untranslatable arm statement `{st}`")
    return adds, brk


def arm_term(adds, brk, rec):
    parts = list(adds) + ([] if brk else [rec])
    return "(" + " + ".join(parts) + ")%nat" if parts else "0%nat"


def split_arms(t, what):
    """match arms: [(pattern tokens, body tokens)]"""
    arms, i = [], 0
    while i < len(t):
        j = i
        while t[j] != "=>":
            j += 1
        pat = t[i:j]
        k = j + 1
        if t[k] == "{":
            e = match_close(t, k)
            body = t[k:e + 1]
            k = e + 1
            if k < len(t) and t[k] == ",":
                k += 1
        else:
            depth = 0
            e = k
            while e < len(t) and not (t[e] == "," and depth == 0):
                if t[e] in OPEN:
                    depth += 1
                elif t[e] in CLOSE:
                    depth -= 1
                e += 1
            body = t[k:e]
            k = e + 1
        arms.append((pat, body))
        i = k
    return arms


def tr_count(t, name, gname):
    what = f"children.rs {name}"
    sig, body = fn_body(t, name, what)
    sts = parse_block(body)
    if len(sts) != 3 or sts[0][0] != "let" or sts[1][0] != "for" or sts[2][0] != "final":
        err(f"{what}: expected `let mut n = 0; for .. {{..}} n`")
    if sts[0][1][0] != "mut" or sts[0][2] != ["0"]:
        err(f"{what}: accumulator initialisation")
    acc = sts[0][1][1]
    if sts[2][1] != [acc]:
        err(f"{what}: result is not the accumulator")
    head = " ".join(sts[1][1])
    m = re.fullmatch(r"(\w+) in (\w+)((?: \. iter \( \) \. rev \( \))?)", head)
    if not m:
        err(f"{what}: loop head `{head}`")
    var, rev = m.group(1), bool(m.group(3))
    inner = parse_block(sts[1][2])
    if len(inner) != 1 or inner[0][0] != "match" or inner[0][1] != [var]:
        err(f"{what}: loop body is not `match {var}`")
    ok_arm = err_arm = None
    for pat, b in split_arms(inner[0][2], what):
        p = " ".join(pat)
        mo = re.fullmatch(r"Ok \( (\w+) \)", p)
        if mo:
            tokvar = mo.group(1)
            bb = b[1:-1] if b and b[0] == "{" else b
            ib = parse_block(bb)
            if len(ib) != 1 or ib[0][0] != "match" or " ".join(ib[0][1]) != C(f"{tokvar}.kind()"):
                err(f"{what}: Ok arm is not `match {tokvar}.kind()`")
            per_kind, default = {}, None
            for kp, kb in split_arms(ib[0][2], what):
                a = count_arm(kb, acc, tokvar, what)
                if kp == ["_"]:
                    default = a
                else:
                    for alt in split_top(kp, "|"):
                        k = kind_of(alt, what)
                        if k in per_kind:
                            err(f"{what}: kind {k} twice")
                        per_kind[k] = a
            ok_arm = (per_kind, default)
        elif p == "Err ( _ )":
            err_arm = count_arm(b, acc, "?", what)
        else:
            err(f"{what}: arm pattern `{p}`")
    if ok_arm is None or err_arm is None:
        err(f"{what}: Ok/Err arms")
    per_kind, default = ok_arm
    lines = []
    rec = f"{gname}_go r"
    for k in KINDS.values():
        a = per_kind.get(k, default)
        if a is None:
            err(f"{what}: kind {k} not covered")
        lines.append(f"          | {k} => {arm_term(a[0], a[1], rec)}")
    out = (f"Fixpoint {gname}_go (tt : list tr) : nat :=\n  match tt with\n  | [] => 0%nat\n"
           f"  | t :: r =>\n      match t with\n      | TOk k text =>\n          match k with\n" + "\n".join(lines) +
           f"\n          end\n      | TErr _ => {arm_term(err_arm[0], err_arm[1], rec)}\n      end\n  end.\n")
    out += (f"Definition {gname} (tt : list tr) : nat := {gname}_go ({'rev tt' if rev else 'tt'}).\n")
    return out


FUNS = {"count_newlines_before": "gen_count_newlines_before", "count_newlines_after": "gen_count_newlines_after",
        "should_start_with_newline": "gen_should_start"}


def tr_should_start(t):
    what = "children.rs should_start_with_newline"
    sig, body = fn_body(t, "should_start_with_newline", what)
    if " ".join(sig) != C("(prev_inline: Option<&ChildTrivia>, tt: &ChildTrivia,) -> (bool, bool)") and \
            " ".join(sig) != C("(prev_inline: Option<&ChildTrivia>, tt: &ChildTrivia) -> (bool, bool)"):
        err(f"{what}: signature `{' '.join(sig)}`")
    env = {"prev_inline": ("opt", "prev_inline"), "tt": ("val", "tt")}
    sts = parse_block(body)
    for st in sts[:-1]:
        if st[0] != "let" or len(st[1]) != 1:
            err(f"{what}: statement `{st}`")
        env[st[1][0]] = ("val", "(" + nat_expr(st[2], env, what) + ")")
    if sts[-1][0] != "final" or sts[-1][1][0] != "(":
        err(f"{what}: result is not a tuple")
    comps = [c for c in split_top(sts[-1][1][1:-1], ",") if c]
    if len(comps) != 2:
        err(f"{what}: result is not a pair")
    a, b = (cmp_expr(c, env, what) for c in comps)
    return ("Definition gen_should_start (prev_inline : option (list tr)) (tt : list tr) : bool * bool :=\n"
            f"  ({a}, {b}).\n")


def nat_expr(t, env, what):
    parts = split_top(t, "+")
    if len(parts) > 1:
        return "(" + " + ".join(nat_expr(p, env, what) for p in parts) + ")%nat"
    s = " ".join(t)
    if re.fullmatch(r"\d+", s):
        return s + "%nat"
    m = re.fullmatch(r"(\w+) \( (\w+) \)", s)
    if m and m.group(1) in FUNS and env.get(m.group(2), ("",))[0] == "val":
        return f"{FUNS[m.group(1)]} {env[m.group(2)][1]}"
    m = re.fullmatch(r"(\w+) \. map \( (\w+) \) \. unwrap_or_default \( \)", s)
    if m and m.group(2) in FUNS and env.get(m.group(1), ("",))[0] == "opt":
        return f"match {env[m.group(1)][1]} with Some p => {FUNS[m.group(2)]} p | None => 0%nat end"
    if s in env and env[s][0] == "val":
        return env[s][1]
    err(f"{what}: untranslatable number `{s}`")


def cmp_expr(t, env, what):
    for k, x in enumerate(t):
        if x in (">=", "<=", "==", ">", "<"):
            a, b = nat_expr(t[:k], env, what), nat_expr(t[k + 1:], env, what)
            return {">=": f"Nat.leb {b} {a}", "<=": f"Nat.leb {a} {b}", "==": f"Nat.eqb {a} {b}",
                    ">": f"Nat.ltb {b} {a}", "<": f"Nat.ltb {a} {b}"}[x]
    err(f"{what}: not a comparison `{' '.join(t)}`")


# ---------------------------------------------------------------- children: the loop
STATE = ["out", "current_child", "next", "started_next", "had_some", "trailing"]
FIELD = {"out": "s_out", "current_child": "s_cur", "next": "s_next", "started_next": "s_started",
         "had_some": "s_had", "trailing": "s_trailing"}
CHILD_FIELDS = ["should_start_with_newline", "before_trivia", "value", "inline_trivia", "triggers_multiline"]
PANIC = "StepPanic"


class Loop:
    """symbolic execution of the loop body for one constructor of [item]"""

    def __init__(self, facts, what):
        self.facts = facts      # node / trivia / err / sep : bool ; binders
        self.what = what
        self.fresh = 0

    def mkst(self, env):
        return "(mkSt " + " ".join(self.val(env, v) for v in STATE) + ")"

    def val(self, env, name):
        if name not in env:
            err(f"{self.what}: unknown variable `{name}`")
        return env[name]

    # -- conditions
    def cond(self, t, env):
        """-> True / False (decided by the item constructor) or a Gallina bool term"""
        parts = split_top2(t, "||")
        if len(parts) > 1:
            vs = [self.cond(p, env) for p in parts]
            if any(v is True for v in vs):
                return True
            vs = [v for v in vs if v is not False]
            return "(" + " || ".join(vs) + ")" if vs else False
        parts = split_top2(t, "&&")
        if len(parts) > 1:
            vs = [self.cond(p, env) for p in parts]
            if any(v is False for v in vs):
                return False
            vs = [v for v in vs if v is not True]
            return "(" + " && ".join(vs) + ")" if vs else True
        if t[0] == "!":
            v = self.cond(t[1:], env)
            return (not v) if isinstance(v, bool) else f"negb {v}"
        if t[0] == "(" and match_close(t, 0) == len(t) - 1:
            return self.cond(t[1:-1], env)
        s = " ".join(t)
        if s == C("CustomError::can_cast(item.kind())"):
            return self.facts["err"]
        if s == C("TS![, ;].contains(item.kind())"):
            return self.facts["sep"]
        m = re.fullmatch(r"(\w+) \. (is_some|is_none|is_empty) \( \)", s)
        if m and m.group(1) in env and m.group(1) in STATE:
            v = env[m.group(1)]
            kind = {"out": "list", "next": "list", "current_child": "opt", "trailing": "opt"}.get(m.group(1))
            if m.group(2) == "is_empty" and kind == "list":
                return f"is_empty {v}"
            if m.group(2) == "is_none" and kind == "opt":
                return f"is_none {v}"
            if m.group(2) == "is_some" and kind == "opt":
                return f"negb (is_none {v})"
        if self.facts.get("trivia"):
            m = re.fullmatch(re.escape(C("trivia.kind() == ")) + r" (TriviaKind :: \w+)", s)
            if m:
                return f"(match k with {kind_of(m.group(1).split(' '), self.what)} => true | _ => false end)"
            m = re.fullmatch(re.escape(C("trivia.text().contains(")) + r" ('(?:\\.|.)') \)", s)
            if m:
                return f"existsb (fun c => c =? {char_code(m.group(1), self.what)}) text"
        if s in env and (s in ("started_next", "had_some", "loose") or s in self.bools):
            return env[s]
        err(f"{self.what}: untranslatable condition `{s}`")

    # -- values
    def value(self, t, env):
        """pure value expressions -> Gallina"""
        s = " ".join(t)
        if s in (C("Vec::new()"), C("ChildTrivia::new()")):
            return "[]"
        if s in ("true", "false"):
            return s
        if s == C("None::<Child<T>>") or s == "None":
            return "None"
        if t[0] == "&":
            return self.value(t[1:], env)
        if self.facts.get("trivia") and s in (C("Ok(trivia.clone())"), C("Ok(trivia)")):
            return "(TOk k text)"
        if self.facts.get("err") and s == C("Err(item.to_string())"):
            return "(TErr text)"
        m = re.fullmatch(r"(\w+) \. as_ref \( \) \. map \( \| (\w+) \| & (\w+) \. (\w+) \)", s)
        if m and m.group(1) == "current_child" and m.group(2) == m.group(3) and m.group(4) in CHILD_FIELDS:
            return f"(option_map {CH_ACC[m.group(4)]} {env['current_child']})"
        if len(t) == 1 and t[0] in env:
            return env[t[0]]
        try:
            v = self.cond(t, env)
            if not isinstance(v, bool):
                return v
        except TranslateError:
            pass
        err(f"{self.what}: untranslatable value `{s}`")

    # -- statements (continuation passing; k(env) = the term for falling off the end)
    def block(self, sts, env, k):
        if not sts:
            return k(env)
        st, rest = sts[0], sts[1:]
        cont = lambda e: self.block(rest, e, k)
        kind = st[0]
        if kind == "continue":
            return f"Continue {self.mkst(env)}"
        if kind == "break":
            return f"Break {self.mkst(env)}"
        if kind == "if":
            return self.if_chain(st[1], st[2], env, cont)
        if kind == "let":
            return self.let(st[1], st[2], env, cont)
        if kind in ("expr", "final"):
            return self.expr_stmt(st[1], env, cont)
        err(f"{self.what}: untranslatable statement `{kind}`")

    def if_chain(self, arms, els, env, cont):
        if not arms:
            return self.block(parse_block(els), dict(env), cont) if els is not None else cont(env)
        (c, body), more = arms[0], arms[1:]
        s = " ".join(c)
        otherwise = lambda: self.if_chain(more, els, dict(env), cont)
        # `if let` on the item
        if s == C("let Some(value) = item.as_node().cloned().and_then(T::cast)"):
            if self.facts["node"]:
                e = dict(env)
                e["value"] = "v"
                return self.block(parse_block(body), e, cont)
            return otherwise()
        if s == C("let Some(trivia) = item.as_token().cloned().and_then(Trivia::cast)"):
            if self.facts["trivia"]:
                return self.block(parse_block(body), dict(env), cont)
            return otherwise()
        m = re.fullmatch(r"let Some \( (\w+) \) = (\w+)", s)
        if m and m.group(2) in env and (m.group(2) in ("current_child", "trailing") or m.group(2) in self.opts):
            x = self.new(m.group(1))
            e = dict(env)
            e[m.group(1)] = x
            inner_cont = cont
            if m.group(1) == m.group(2):
                # the binder shadows the (moved) option inside the block only
                orig = env[m.group(2)]

                def inner_cont(e2, orig=orig, name=m.group(2)):
                    e3 = dict(e2)
                    e3[name] = orig
                    return cont(e3)
            return (f"match {env[m.group(2)]} with Some {x} => {self.block(parse_block(body), e, inner_cont)} "
                    f"| None => {otherwise()} end")
        v = self.cond(c, env)
        if v is True:
            return self.block(parse_block(body), dict(env), cont)
        if v is False:
            return otherwise()
        return f"(if {v} then {self.block(parse_block(body), dict(env), cont)} else {otherwise()})"

    def new(self, base):
        self.fresh += 1
        return f"{base}{self.fresh}"

    def let(self, pat, rhs, env, cont):
        s = " ".join(rhs)
        # let X = if let Some(P) = OPT.take() { ..; P } else { mem::take(&mut V) };
        if rhs[0] == "if":
            st, end = parse_if(rhs, 0)
            if end != len(rhs) or len(st[1]) != 1 or st[2] is None or len(pat) != 1:
                err(f"{self.what}: untranslatable `let .. = if`")
            c, body = st[1][0]
            m = re.fullmatch(r"let Some \( (\w+) \) = (\w+) \. take \( \)", " ".join(c))
            if not m or m.group(2) not in ("trailing",):
                err(f"{self.what}: untranslatable `let .. = if {' '.join(c)}`")
            x = self.new("tr")
            e1 = dict(env)
            e1[m.group(2)] = "None"
            e1[m.group(1) if m.group(1) != m.group(2) else "__shadow_" + m.group(1)] = x
            if m.group(1) == m.group(2):
                # the binder shadows the state variable inside the block only
                inner = dict(e1)
                inner[m.group(1)] = x
            else:
                inner = e1

            def after(val_env, val):
                e = dict(val_env)
                if m.group(1) == m.group(2):
                    e[m.group(2)] = "None"
                e[pat[0]] = val
                self.lists.add(pat[0])
                return cont(e)
            then_t = self.value_block(parse_block(body), inner, after)
            e2 = dict(env)
            e2[m.group(2)] = "None"
            else_t = self.value_block(parse_block(st[2]), e2, after)
            return f"match {env[m.group(2)]} with Some {x} => {then_t} | None => {else_t} end"
        # let (a, b) = should_start_with_newline(A, B);
        m = re.fullmatch(r"should_start_with_newline \( (.*) \)", s)
        if m and pat[0] == "(":
            names = [p for p in split_top(pat[1:-1], ",") if p]
            args = [a for a in split_top(rhs[2:-1], ",") if a]
            if len(names) != 2 or len(args) != 2 or any(len(n) != 1 for n in names):
                err(f"{self.what}: should_start_with_newline call")
            a, b = (self.value(x, env) for x in args)
            x, y = self.new("ssn"), self.new("multi")
            e = dict(env)
            e[names[0][0]], e[names[1][0]] = x, y
            self.bools |= {names[0][0], names[1][0]}
            return f"let '({x}, {y}) := gen_should_start {a} {b} in {cont(e)}"
        # let last = current_child.replace(Child { .. });
        m = re.fullmatch(r"current_child \. replace \( Child \{ (.*) \} \)", s)
        if m and len(pat) == 1:
            inner = rhs[rhs.index("{") + 1:match_close(rhs, rhs.index("{"))]
            fields = {}
            for f in split_top(inner, ","):
                if not f:
                    continue
                if len(f) == 1:
                    fields[f[0]] = self.value(f, env)
                elif f[1] == ":":
                    fields[f[0]] = self.value(f[2:], env)
                else:
                    err(f"{self.what}: Child field `{' '.join(f)}`")
            if sorted(fields) != sorted(CHILD_FIELDS):
                err(f"{self.what}: Child literal has fields {sorted(fields)}")
            e = dict(env)
            e[pat[0]] = env["current_child"]
            self.opts.add(pat[0])
            e["current_child"] = "(Some (mkChild " + " ".join(fields[f] for f in CHILD_FIELDS) + "))"
            return cont(e)
        # let cur = current_child.as_mut().expect("..");
        m = re.fullmatch(r'current_child \. as_mut \( \) \. expect \( "[^"]*" \)', s)
        if m and len(pat) == 1:
            x = self.new("c")
            e = dict(env)
            e["current_child"] = f"(Some {x})"
            self.refs[pat[0]] = x
            self.cur_child = x
            return f"match {env['current_child']} with None => {PANIC} | Some {x} => {cont(e)} end"
        if len(pat) == 1:
            v = self.cond(rhs, env)
            if isinstance(v, bool):
                v = "true" if v else "false"
            e = dict(env)
            e[pat[0]] = v
            self.bools.add(pat[0])
            return cont(e)
        err(f"{self.what}: untranslatable `let {' '.join(pat)} = {s}`")

    def value_block(self, sts, env, after):
        """a block whose last statement is its value"""
        if not sts or sts[-1][0] != "final":
            err(f"{self.what}: block without a value")

        def fin(e):
            t = sts[-1][1]
            m = re.fullmatch(r"mem :: take \( & mut (\w+) \)", " ".join(t))
            if m and m.group(1) in ("next",):
                e2 = dict(e)
                v = e[m.group(1)]
                e2[m.group(1)] = "[]"
                return after(e2, v)
            if len(t) == 1 and t[0] in e:
                return after(e, e[t[0]])
            err(f"{self.what}: untranslatable block value `{' '.join(t)}`")
        return self.block(sts[:-1], env, fin)

    def expr_stmt(self, t, env, cont):
        s = " ".join(t)
        if t[0] == "assert!":
            inner = t[2:match_close(t, 1)]
            c = split_top(inner, ",")[0]
            v = self.cond(c, env)
            if v is True:
                return cont(env)
            if v is False:
                return PANIC
            return f"(if {v} then {cont(env)} else {PANIC})"
        if len(t) == 3 and t[1] == "=" and t[0] in ("started_next", "had_some") and t[2] in ("true", "false"):
            e = dict(env)
            e[t[0]] = t[2]
            return cont(e)
        m = re.fullmatch(r"(\w+) \. push \( (.*) \)", s)
        if m and m.group(1) in ("out", "next"):
            e = dict(env)
            e[m.group(1)] = f"({env[m.group(1)]} ++ [{self.value(t[4:-1], env)}])"
            return cont(e)
        m = re.fullmatch(r"(\w+) \. inline_trivia \. push \( (.*) \)", s)
        if m and m.group(1) in self.refs:
            x = self.refs[m.group(1)]
            if env["current_child"] != f"(Some {x})":
                err(f"{self.what}: push through a stale reference")
            e = dict(env)
            y = self.value(t[6:-1], env)
            e["current_child"] = (f"(Some (mkChild (c_nl {x}) (c_before {x}) (c_value {x}) (c_inline {x} ++ [{y}]) "
                                  f"(c_multi {x})))")
            return cont(e)
        if t[0] == "if":
            st, end = parse_if(t, 0)
            if end == len(t):
                return self.if_chain(st[1], st[2], env, cont)
        err(f"{self.what}: untranslatable statement `{s}`")


CH_ACC = {"should_start_with_newline": "c_nl", "before_trivia": "c_before", "value": "c_value",
          "inline_trivia": "c_inline", "triggers_multiline": "c_multi"}


def split_top2(t, op):
    parts, cur, depth = [], [], 0
    for x in t:
        if x in OPEN:
            depth += 1
        elif x in CLOSE:
            depth -= 1
        if depth == 0 and x == op:
            parts.append(cur)
            cur = []
        else:
            cur.append(x)
    parts.append(cur)
    return parts


ITEMS = [("INode v", dict(node=True, trivia=False, err=False, sep=False)),
         ("ITriv k text", dict(node=False, trivia=True, err=False, sep=False)),
         ("IErr text", dict(node=False, trivia=False, err=True, sep=False)),
         ("ISep", dict(node=False, trivia=False, err=False, sep=True)),
         ("IOther", dict(node=False, trivia=False, err=False, sep=False))]


def new_loop(facts, what):
    lp = Loop(facts, what)
    lp.bools, lp.opts, lp.lists, lp.refs = set(), set(), set(), {}
    return lp


def tr_children(t):
    what = "children.rs children"
    sig, body = fn_body(t, "children", what)
    s = " ".join(sig)
    if C("loose: bool, mut trailing: Option<ChildTrivia>,") not in s or C("items: impl Iterator<Item = SyntaxElement>") not in s:
        err(f"{what}: signature `{s}`")
    sts = parse_block(body)
    k = next((i for i, st in enumerate(sts) if st[0] == "for"), None)
    if k is None or " ".join(sts[k][1]) != "item in items":
        err(f"{what}: `for item in items` not found")
    # 1. state variables
    init = {"trailing": "trailing"}
    lp0 = new_loop(dict(node=False, trivia=False, err=False, sep=False), what)
    for st in sts[:k]:
        if st[0] != "let" or len(st[1]) != 2 or st[1][0] != "mut" or st[1][1] not in STATE:
            err(f"{what}: statement before the loop is not a known state variable: `{st}`")
        init[st[1][1]] = lp0.value(st[2], {})
    if sorted(init) != sorted(STATE):
        err(f"{what}: state variables are {sorted(init)}")
    out = ("Definition gen_init_st (trailing : option (list tr)) : st :=\n  mkSt " +
           " ".join(init[v] for v in STATE) + ".\n")
    # 2. the loop body, once per item constructor
    loop_sts = parse_block(sts[k][2])
    arms = []
    for ctor, facts in ITEMS:
        lp = new_loop(facts, what + f" [{ctor.split()[0]}]")
        env = {v: f"({FIELD[v]} s)" for v in STATE}
        env["loose"] = "loose"
        term = lp.block(loop_sts, env, lambda e, lp=lp: f"Continue {lp.mkst(e)}")
        arms.append(f"  | {ctor} =>\n      {term}")
    out += ("Definition gen_step (loose : bool) (s : st) (it : item) : step_res :=\n  match it with\n" +
            "\n".join(arms) + "\n  end.\n")
    # 3. after the loop
    lp = new_loop(dict(node=False, trivia=False, err=False, sep=False), what + " [after the loop]")
    env = {v: f"({FIELD[v]} s)" for v in STATE}
    post = sts[k + 1:]
    if len(post) != 3 or post[0][0] != "let" or post[1][0] != "if" or post[2][0] != "final":
        err(f"{what}: statements after the loop")
    rhs = post[0][2]
    if rhs[0] != "EndingComments" or rhs[1] != "{" or len(post[0][1]) != 1:
        err(f"{what}: ending comments literal")
    fields = {}
    for f in split_top(rhs[2:-1], ","):
        if not f:
            continue
        if f[1] != ":":
            err(f"{what}: EndingComments field")
        fields[f[0]] = f[2:]
    if sorted(fields) != ["should_start_with_newline", "trivia"]:
        err(f"{what}: EndingComments fields {sorted(fields)}")
    ss = fields["should_start_with_newline"]
    m = re.fullmatch(r"should_start_with_newline \( (.*) \) \. (0|1)", " ".join(ss))
    if not m:
        err(f"{what}: ending should_start_with_newline `{' '.join(ss)}`")
    close = match_close(ss, 1)
    args = [a for a in split_top(ss[2:close], ",") if a]
    if len(args) != 2:
        err(f"{what}: ending should_start_with_newline arguments")
    a, b = (lp.value(x, env) for x in args)
    proj = "fst" if m.group(2) == "0" else "snd"
    e_nl = f"({proj} (gen_should_start {a} {b}))"
    e_tr = lp.value(fields["trivia"], env)
    env[post[0][1][0]] = f"(mkEnding {e_nl} {e_tr})"
    final = post[2][1]
    comps = [c for c in split_top(final[1:-1], ",") if c]
    if final[0] != "(" or len(comps) != 2:
        err(f"{what}: result tuple")
    res = lambda e: "(" + ", ".join(lp.value(c, e) for c in comps) + ")"
    term = lp.if_chain(post[1][1], post[1][2], env, res)
    out += f"Definition gen_finish (s : st) : list child * ending :=\n  {term}.\n"
    return out


# ---------------------------------------------------------------- generator
@generator("GenFmt")
def gen_fmt():
    t = toks(src(CH))
    parts = [
        "From Coq Require Import List NArith Bool.\n"
        "From JrV Require Import C19.Model.\n"
        "Import ListNotations.\n"
        "Open Scope N_scope.\n"
        "(* children.rs: count_newlines_before *)\n",
        tr_count(t, "count_newlines_before", "gen_count_newlines_before"),
        "(* children.rs: count_newlines_after *)\n",
        tr_count(t, "count_newlines_after", "gen_count_newlines_after"),
        "(* children.rs: should_start_with_newline *)\n",
        tr_should_start(t),
        "(* children.rs: children - state variables, one loop iteration, statements after the loop *)\n",
        tr_children(t),
    ]
    return "".join(parts)
