"""GenFormatParse.v (C12 source tie): the format-string PARSER and the argument consumption of
crates/jrsonnet-evaluator/src/stdlib/format.rs, translated statement by statement into Gallina
over the vocabulary of C12/Model.v:

    try_parse_mapping_key  try_parse_cflags  try_parse_field_width  try_parse_precision
    try_parse_length_modifier  parse_conversion_type  parse_code  parse_codes
    format_arr  format_obj   (get_dotted_field / format_code stay the hand model's)

How the Rust is read (everything else raises TranslateError = fail closed):
  * the body of each function is split into its top-level statements; every statement must be one
    of the shapes below and is translated in SOURCE ORDER (the chain of `let (x, str) = f(str)?;`
    in parse_code, the `let width / let precision / let value` blocks of format_arr thread the
    remaining string / remaining value slice exactly as written);
  * cursor idiom: an index `i` into `bytes = str.as_bytes()` that is only ever changed by
    `i += 1` is read as "the suffix &str[i..]": `bytes[i]` is the head of the suffix,
    `bytes.len() == i` is "suffix empty", `&str[i..]` is the suffix, `&str[i + 1..]` its tail.
    An index read that the code does not guard (`bytes[i]` on an exhausted suffix, `values[0]` on an
    empty slice) becomes the model's `Err EPanic`;
  * the value slice of format_arr: `if values.is_empty() { bail!(E) }` / `let value = &values[0];` /
    `values = &values[1..];` are interpreted one by one (forgetting the last one leaves the slice
    unchanged in the emitted term);
  * u16 `checked_mul(k).and_then(|out| out.checked_add(digit as u16)).ok_or(E)?` is two `chk16e E`.
"""
import re

from gen import TranslateError, generator, src

ERR = {"TruncatedFormatCode": "ETrunc", "FieldWidthTooLarge": "ETooLarge", "NotEnoughValues": "ENotEnough",
       "CannotUseStarWidthWithObject": "EStarObj", "MappingKeysRequired": "EKeysReq"}
CONV = {"Decimal": "GDecimal", "Octal": "GOctal", "Hexadecimal": "GHexadecimal", "Scientific": "GScientific",
        "Float": "GFloat", "Shorter": "GShorter", "Char": "GChar", "String": "GString", "Percent": "GPercent"}
FLAG = {"alt": "FAlt", "zero": "FZero", "left": "FLeft", "blank": "FBlank", "sign": "FSign"}
PARSERS = {"try_parse_mapping_key": "gen_mapping_key", "try_parse_cflags": "gen_cflags",
           "try_parse_field_width": "gen_field_width", "try_parse_precision": "gen_precision",
           "try_parse_length_modifier": "gen_lenmod", "parse_conversion_type": "gen_convtype"}
UNIT_PARSERS = {"try_parse_length_modifier"}       # ParseResult<()>: translated to res (list N)
CODE_FIELDS = {"mkey": "c_mkey", "cflags": "c_flags", "width": "c_width", "precision": "c_prec",
               "convtype": "c_type", "caps": "c_caps"}


def fail(what):
    raise TranslateError("format.rs parser: " + what)


# ------------------------------------------------------------------ lexical preparation
def mask(text):
    """comments out, byte literals -> BYTE_<n>, string literals -> STR_<k> (so brace matching is safe)"""
    text = re.sub(r"//[^\n]*", "", text)
    strs = []

    def s_sub(m):
        strs.append(m.group(1))
        return f"STR_{len(strs) - 1}"
    text = re.sub(r'(?<!b)"((?:[^"\\\n]|\\.)*)"', s_sub, text)

    def b_sub(m):
        ch = m.group(1)
        if len(ch) != 1:
            fail(f"escaped byte literal b'{ch}'")
        return f"BYTE_{ord(ch)}"
    text = re.sub(r"\bb'(\\?.)'", b_sub, text)
    return text, strs


def norm(s):
    s = re.sub(r"\s+", " ", s).strip()
    s = re.sub(r" \.(?=[a-z_])", ".", s)
    s = re.sub(r",\s*([)\]}])", r" \1", s)
    s = re.sub(r"\(\s+", "(", s)
    s = re.sub(r"\s+\)", ")", s)
    s = re.sub(r"\s+", " ", s).strip()
    return s


def braced(s, what="block"):
    """s starts with `{` -> (inner, rest)"""
    s = s.lstrip()
    if not s.startswith("{"):
        fail(f"{what}: expected `{{` at `{s[:40]}`")
    depth = 0
    for j, ch in enumerate(s):
        if ch == "{":
            depth += 1
        elif ch == "}":
            depth -= 1
            if depth == 0:
                return s[1:j].strip(), s[j + 1:].strip()
    fail(f"{what}: unbalanced braces")


def fn_body(text, name):
    m = re.findall(r"\n(?:pub )?fn " + name + r"\b", text)
    if len(m) != 1:
        fail(f"fn {name}: found {len(m)} definitions")
    i = text.index(m[0])
    j = text.index("{", i)
    sig = text[i:j]
    inner, _ = braced(text[j:], f"fn {name}")
    return norm(sig), norm(inner)


BLOCK_KW = ("if ", "while ", "loop ", "loop{", "match ", "for ")


def stmts(block):
    """top-level statements of a (normalised) block"""
    out, depth, start, i, n = [], 0, 0, 0, len(block)
    while i < n:
        ch = block[i]
        if ch in "([{":
            depth += 1
        elif ch in ")]}":
            depth -= 1
            if depth < 0:
                fail("unbalanced block")
            if depth == 0 and ch == "}" and block[start:].lstrip().startswith(BLOCK_KW):
                rest = block[i + 1:].lstrip()
                if not rest.startswith("else"):
                    out.append(block[start:i + 1].strip())
                    start = i + 1
        elif ch == ";" and depth == 0:
            out.append(block[start:i + 1].strip())
            start = i + 1
        i += 1
    tail = block[start:].strip()
    if tail:
        out.append(tail)
    return [s for s in out if s]


def parse_if(s, what):
    """`if COND { A } [else { B }]` -> (cond, A, B|None)"""
    m = re.match(r"if (.+?) \{", s)
    if not m:
        fail(f"{what}: not an if: `{s[:60]}`")
    cond = m.group(1)
    a, rest = braced(s[m.end() - 1:], what)
    b = None
    if rest:
        if not rest.startswith("else"):
            fail(f"{what}: text after if-block: `{rest[:40]}`")
        rest = rest[4:].strip()
        if rest.startswith("if "):
            fail(f"{what}: else-if chains are not translated")
        b, rest2 = braced(rest, what)
        if rest2 not in ("", ";"):
            fail(f"{what}: text after else-block: `{rest2[:40]}`")
    return cond, a, b


def err_of(s, what):
    m = re.fullmatch(r"(?:return )?Err\((\w+)\);?", s.strip())
    if not m or m.group(1) not in ERR:
        fail(f"{what}: not a known error return: `{s[:60]}`")
    return ERR[m.group(1)]


def bail_of(s, what):
    m = re.fullmatch(r"bail!\((\w+)\);?", s.strip())
    if not m or m.group(1) not in ERR:
        fail(f"{what}: not a known bail!: `{s[:60]}`")
    return ERR[m.group(1)]


def expect(cond, what):
    if not cond:
        fail(what)


def prologue(name, body):
    """the `if str.is_empty() { return Err(E); }` guard and `let bytes = str.as_bytes();` ->
    (term for the empty string, remaining statements)"""
    ss = stmts(body)
    empty = "Err EPanic"
    if ss and ss[0].startswith("if str.is_empty()"):
        cond, a, b = parse_if(ss[0], name)
        expect(cond == "str.is_empty()" and b is None, f"{name}: empty-string guard")
        empty = "Err " + err_of(a, name)
        ss = ss[1:]
    if ss and ss[0] == "let bytes = str.as_bytes();":
        ss = ss[1:]
    return empty, ss


def wrap(name, gname, ty, empty, nonempty):
    return (f"Definition {gname} (s : list N) : res ({ty}) :=\n"
            f"  match s with\n  | [] => {empty}\n  | c0 :: t0 => {nonempty}\n  end.")


# ------------------------------------------------------------------ the parsers
def tr_mapping_key(text):
    name = "try_parse_mapping_key"
    _, body = fn_body(text, name)
    empty, ss = prologue(name, body)
    expect(len(ss) == 1, f"{name}: expected one if/else after the prologue, got {len(ss)} statements")
    cond, a, b = parse_if(ss[0], name)
    m = re.fullmatch(r"bytes\[0\] == BYTE_(\d+)", cond)
    expect(m and b is not None, f"{name}: opening test `{cond}`")
    open_c = m.group(1)
    expect(b == "Ok((STR_EMPTY, str))", f"{name}: no-key result `{b}`")
    sa = stmts(a)
    expect(len(sa) == 3, f"{name}: key branch has {len(sa)} statements")
    m = re.fullmatch(r"let mut i = (\d+);", sa[0])
    expect(m and m.group(1) in ("0", "1"), f"{name}: scan start `{sa[0]}`")
    start = int(m.group(1))
    m = re.match(r"while i < bytes\.len\(\) \{", sa[1])
    expect(m, f"{name}: scan loop `{sa[1][:50]}`")
    loop, rest = braced(sa[1][m.end() - 1:], name)
    expect(rest == "", f"{name}: text after loop")
    sl = stmts(loop)
    expect(len(sl) == 2 and sl[1] == "i += 1;", f"{name}: loop body must be `if ..{{return}}` then `i += 1;`")
    cond2, ret, e2 = parse_if(sl[0], name)
    m = re.fullmatch(r"bytes\[i\] == BYTE_(\d+)", cond2)
    expect(m and e2 is None, f"{name}: closing test `{cond2}`")
    close_c = m.group(1)
    m = re.fullmatch(r"return Ok\(\(&str\[(\d+)\.\.i\], &str\[i( \+ 1)?\.\.\]\)\);", ret)
    expect(m and int(m.group(1)) == start, f"{name}: key slices `{ret}`")
    after = "t" if m.group(2) else "s"
    fall = "Err " + err_of(sa[2], name)
    scan_from = "t0" if start == 1 else "s"
    out = [f"(* {name}: the scan `while i < bytes.len()` from index {start}; acc = &str[{start}..i] reversed *)",
           "Fixpoint gen_key_scan (s acc : list N) : res (list N * list N) :=\n"
           "  match s with\n"
           f"  | [] => {fall}\n"
           f"  | c :: t => if c =? {close_c} then Ok (rev acc, {after}) else gen_key_scan t (c :: acc)\n"
           "  end.",
           wrap(name, "gen_mapping_key", "list N * list N", empty,
                f"if c0 =? {open_c} then gen_key_scan {scan_from} [] else Ok ([], s)")]
    return out


def tr_cflags(text):
    name = "try_parse_cflags"
    _, body = fn_body(text, name)
    empty, ss = prologue(name, body)
    expect(len(ss) == 4 and ss[0] == "let mut i = 0;" and ss[1] == "let mut out = CFlags::default();"
           and ss[3] == "Ok((out, &str[i..]))", f"{name}: statements {ss[:2]} .. {ss[-1:]}")
    m = re.match(r"loop \{", ss[2])
    expect(m, f"{name}: loop")
    loop, rest = braced(ss[2][m.end() - 1:], name)
    expect(rest == "", f"{name}: text after loop")
    sl = stmts(loop)
    exhausted = "Err EPanic"
    if sl and sl[0].startswith("if "):
        cond, a, b = parse_if(sl[0], name)
        expect(cond in ("bytes.len() == i", "i == bytes.len()") and b is None, f"{name}: end test `{cond}`")
        exhausted = "Err " + err_of(a, name)
        sl = sl[1:]
    expect(len(sl) == 2 and sl[1] == "i += 1;", f"{name}: loop body must end with the match and `i += 1;`")
    m = re.match(r"match bytes\[i\] \{", sl[0])
    expect(m, f"{name}: match `{sl[0][:40]}`")
    arms_s, rest = braced(sl[0][m.end() - 1:], name)
    expect(rest == "", f"{name}: text after match")
    arms = [a.strip() for a in arms_s.split(",") if a.strip()]
    expect(arms and arms[-1] == "_ => break", f"{name}: last arm must be `_ => break`")
    chain = ""
    for a in arms[:-1]:
        m = re.fullmatch(r"BYTE_(\d+) => out\.(\w+) = true", a)
        expect(m and m.group(2) in FLAG, f"{name}: arm `{a}`")
        chain += f"if c =? {m.group(1)} then gen_cflags_loop t (set_flag {FLAG[m.group(2)]} out)\n      else "
    chain += "Ok (out, s)"
    return [f"(* {name}: `loop {{ .. match bytes[i] {{..}} i += 1 }}` *)",
            "Fixpoint gen_cflags_loop (s : list N) (out : cflags) : res (cflags * list N) :=\n"
            "  match s with\n"
            f"  | [] => {exhausted}\n"
            f"  | c :: t =>\n      {chain}\n"
            "  end.",
            wrap(name, "gen_cflags", "cflags * list N", empty, "gen_cflags_loop s no_flags")]


def tr_field_width(text):
    name = "try_parse_field_width"
    _, body = fn_body(text, name)
    empty, ss = prologue(name, body)
    expect(len(ss) == 5, f"{name}: expected 5 statements after the prologue, got {len(ss)}")
    cond, a, b = parse_if(ss[0], name)
    m = re.fullmatch(r"bytes\[0\] == BYTE_(\d+)", cond)
    expect(m and b is None and a == "return Ok((Width::Star, &str[1..]));", f"{name}: star branch `{cond}` `{a}`")
    star = m.group(1)
    m = re.fullmatch(r"let mut out: u16 = (\d+);", ss[1])
    expect(m, f"{name}: accumulator `{ss[1]}`")
    init = m.group(1)
    expect(ss[2] == "let mut digits = 0;", f"{name}: index `{ss[2]}`")
    m = re.match(r"while let Some\(digit\) = \(bytes\[digits\] as char\)\.to_digit\(10\) \{", ss[3])
    expect(m, f"{name}: digit loop head `{ss[3][:70]}`")
    loop, rest = braced(ss[3][m.end() - 1:], name)
    expect(rest == "", f"{name}: text after loop")
    expect(ss[4] == "Ok((Width::Fixed(out), &str[digits..]))", f"{name}: result `{ss[4]}`")
    acc, advanced, after = [], False, None
    for st in stmts(loop):
        m = re.fullmatch(r"out = out\.checked_mul\((\d+)\)\.and_then\(\|out\| out\.checked_add\(digit as u16\)\)"
                         r"\.ok_or\((\w+)\)\?;", st)
        if m:
            expect(m.group(2) in ERR, f"{name}: error {m.group(2)}")
            e = ERR[m.group(2)]
            acc.append(f"do o1 <- chk16e {e} (out * {m.group(1)}); do out <- chk16e {e} (o1 + digit);")
            continue
        if st == "digits += 1;":
            expect(not advanced, f"{name}: index advanced twice")
            advanced = True
            continue
        if st.startswith("if "):
            cond, a, b = parse_if(st, name)
            expect(cond in ("digits == bytes.len()", "bytes.len() == digits") and b is None and advanced
                   and after is None, f"{name}: end test `{cond}` (must follow `digits += 1;`)")
            after = "Err " + err_of(a, name)
            continue
        fail(f"{name}: loop statement `{st[:70]}`")
    expect(advanced, f"{name}: the loop never advances")
    nxt = "gen_width_loop t out" if after is None else \
        f"match t with [] => {after} | _ :: _ => gen_width_loop t out end"
    return [f"(* {name}: `while let Some(digit) = (bytes[digits] as char).to_digit(10)`; an exhausted suffix at\n"
            "   the loop head is an index panic *)",
            "Fixpoint gen_width_loop (s : list N) (out : N) : res (N * list N) :=\n"
            "  match s with\n"
            "  | [] => Err EPanic\n"
            "  | c :: t =>\n"
            "      match digit_of c with\n"
            "      | None => Ok (out, s)\n"
            "      | Some digit =>\n"
            f"          {' '.join(acc)}\n"
            f"          {nxt}\n"
            "      end\n"
            "  end.",
            wrap(name, "gen_field_width", "width * list N", empty,
                 f"if c0 =? {star} then Ok (WStar, t0)\n"
                 f"               else do nr <- gen_width_loop s {init}; Ok (WFixed (fst nr), snd nr)")]


def tr_precision(text):
    name = "try_parse_precision"
    _, body = fn_body(text, name)
    empty, ss = prologue(name, body)
    expect(len(ss) == 1, f"{name}: expected one if/else")
    cond, a, b = parse_if(ss[0], name)
    m = re.fullmatch(r"bytes\[0\] == BYTE_(\d+)", cond)
    expect(m and a == "try_parse_field_width(&str[1..]).map(|(r, s)| (Some(r), s))" and b == "Ok((None, str))",
           f"{name}: `{cond}` `{a}` `{b}`")
    return [wrap(name, "gen_precision", "option width * list N", empty,
                 f"if c0 =? {m.group(1)} then do wr <- gen_field_width t0; Ok (Some (fst wr), snd wr)\n"
                 "               else Ok (None, s)")]


def tr_lenmod(text):
    name = "try_parse_length_modifier"
    _, body = fn_body(text, name)
    empty, ss = prologue(name, body)
    expect(len(ss) >= 2 and ss[0] == "let mut idx = 0;" and ss[-1] == "Ok(((), &str[idx..]))",
           f"{name}: frame `{ss[0] if ss else ''}` .. `{ss[-1] if ss else ''}`")
    blocks = []
    for st in ss[1:-1]:
        m = re.match(r"(if|while) (.+?) \{", st)
        expect(m, f"{name}: statement `{st[:60]}`")
        kind, cond = m.group(1), m.group(2)
        inner, rest = braced(st[m.end() - 1:], name)
        expect(rest == "", f"{name}: else branch not expected")
        tests = []
        for t in cond.split(" || "):
            mm = re.fullmatch(r"bytes\[idx\] == BYTE_(\d+)", t)
            expect(mm, f"{name}: test `{t}`")
            tests.append(f"(c =? {mm.group(1)})")
        si = stmts(inner)
        expect(si and si[0] == "idx += 1;" and len(si) <= 2, f"{name}: block body `{inner[:60]}`")
        after = None
        if len(si) == 2:
            c2, a2, b2 = parse_if(si[1], name)
            expect(c2 in ("bytes.len() == idx", "idx == bytes.len()") and b2 is None, f"{name}: end test `{c2}`")
            after = "Err " + err_of(a2, name)
        blocks.append((kind, " || ".join(tests), after))
    out = []
    nxt = "Ok"
    for k in range(len(blocks), 0, -1):
        kind, cond, after = blocks[k - 1]
        fname = f"gen_lenmod_{k}"
        cont = f"{fname}" if kind == "while" else nxt
        then = f"{cont} t" if after is None else f"match t with [] => {after} | _ :: _ => {cont} t end"
        kw = "Fixpoint" if kind == "while" else "Definition"
        out.append(f"(* {name}: block {k} (`{kind}`) *)\n"
                   f"{kw} {fname} (s : list N) : res (list N) :=\n"
                   "  match s with\n  | [] => Err EPanic\n"
                   f"  | c :: t => if {cond} then {then} else {nxt} s\n  end.")
        nxt = fname
    out.append(wrap(name, "gen_lenmod", "list N", empty, f"{nxt} s"))
    return out


def tr_convtype(text):
    name = "parse_conversion_type"
    _, body = fn_body(text, name)
    empty, ss = prologue(name, body)
    expect(len(ss) == 3 and ss[0] == "let code = str.as_bytes()[0];"
           and ss[2] == "Ok((ConvType { v: v.0, caps: v.1 }, &str[1..]))", f"{name}: frame {ss[:1]} .. {ss[-1:]}")
    m = re.match(r"let v: \(ConvTypeV, bool\) = match code \{", ss[1])
    expect(m, f"{name}: match `{ss[1][:60]}`")
    arms_s, rest = braced(ss[1][m.end() - 1:], name)
    expect(rest == ";", f"{name}: text after match")
    # arms: split at top-level commas
    arms, depth, cur = [], 0, ""
    for ch in arms_s:
        if ch in "([{":
            depth += 1
        elif ch in ")]}":
            depth -= 1
        if ch == "," and depth == 0:
            arms.append(cur.strip())
            cur = ""
        else:
            cur += ch
    if cur.strip():
        arms.append(cur.strip())
    expect(arms and arms[-1] == "c => return Err(UnrecognizedConversionType(c as char))",
           f"{name}: default arm `{arms[-1] if arms else ''}`")
    chain = ""
    for a in arms[:-1]:
        m = re.fullmatch(r"((?:BYTE_\d+(?: \| )?)+) => \(ConvTypeV::(\w+), (true|false)\)", a)
        expect(m and m.group(2) in CONV, f"{name}: arm `{a}`")
        tests = " || ".join(f"(c0 =? {t.strip()[5:]})" for t in m.group(1).split("|"))
        chain += f"if {tests} then Ok (({CONV[m.group(2)]}, {m.group(3)}), t0)\n      else "
    chain += "Err (EUnrec c0)"
    return [wrap(name, "gen_convtype", "(gconv * bool) * list N", empty, "\n      " + chain)]


def tr_parse_code(text):
    name = "parse_code"
    _, body = fn_body(text, name)
    ss = stmts(body)
    empty = None
    if ss and ss[0].startswith("if str.is_empty()"):
        cond, a, b = parse_if(ss[0], name)
        expect(cond == "str.is_empty()" and b is None, f"{name}: empty-string guard")
        empty = "Err " + err_of(a, name)
        ss = ss[1:]
    env, cur, lines, k = {}, "s", [], 0
    for st in ss[:-1]:
        m = re.fullmatch(r"let \((\w+|\(\)), str\) = (\w+)\(str\)\?;", st)
        expect(m and m.group(2) in PARSERS, f"{name}: statement `{st}`")
        k += 1
        var, f = m.group(1), m.group(2)
        if f in UNIT_PARSERS:
            expect(var == "()", f"{name}: {f} returns ()")
            lines.append(f"do r{k} <- {PARSERS[f]} {cur};")
            cur = f"r{k}"
        else:
            expect(var != "()", f"{name}: {f} returns a value")
            lines.append(f"do r{k} <- {PARSERS[f]} {cur};")
            env[var] = f"fst r{k}"
            cur = f"(snd r{k})"
    m = re.fullmatch(r"Ok\(\(Code \{ (.+?) \}, str\)\)", ss[-1])
    expect(m, f"{name}: result `{ss[-1]}`")
    fields = {}
    for fld in m.group(1).split(","):
        fld = fld.strip()
        mm = re.fullmatch(r"(\w+)(?:: (\w+)(?:\.(\w+))?)?", fld)
        expect(mm and mm.group(1) in CODE_FIELDS, f"{name}: field `{fld}`")
        fname, var, proj = mm.group(1), mm.group(2) or mm.group(1), mm.group(3)
        expect(var in env, f"{name}: field `{fld}` uses unbound `{var}`")
        val = env[var]
        if proj == "v":
            val = f"fst ({val})"
        elif proj == "caps":
            val = f"snd ({val})"
        elif proj is not None:
            fail(f"{name}: projection .{proj}")
        expect(fname not in fields, f"{name}: field {fname} twice")
        fields[fname] = val
    expect(set(fields) == set(CODE_FIELDS), f"{name}: fields {sorted(fields)}")
    rec = "; ".join(f"{CODE_FIELDS[f]} := {fields[f]}" for f in CODE_FIELDS)
    chain = "\n    ".join(lines) + f"\n    Ok ({{| {rec} |}}, {cur})"
    if empty is None:
        bodyt = chain
    else:
        bodyt = f"match s with\n  | [] => {empty}\n  | _ :: _ =>\n    {chain}\n  end"
    return [f"(* {name}: the try_parse_* calls in source order, each handed the rest of the previous one *)",
            f"Definition gen_parse_code (s : list N) : res (code * list N) :=\n  {bodyt}."]


def tr_parse_codes(text):
    name = "parse_codes"
    sig, body = fn_body(text, name)
    expect("mut str: &str" in sig, f"{name}: signature `{sig}`")
    ss = stmts(body)
    expect(len(ss) == 4 and ss[0] == "let mut bytes = str.as_bytes();" and ss[1] == "let mut out = vec![];"
           and ss[2] == "let mut offset = 0;", f"{name}: frame {ss[:3]}")
    m = re.match(r"loop \{", ss[3])
    expect(m, f"{name}: loop")
    loop, rest = braced(ss[3][m.end() - 1:], name)
    expect(rest == "", f"{name}: text after loop")
    sl = stmts(loop)
    expect(len(sl) == 9, f"{name}: loop has {len(sl)} statements, expected 9")
    m = re.fullmatch(r"while offset != bytes\.len\(\) && bytes\[offset\] != BYTE_(\d+) \{ offset \+= 1; \}", sl[0])
    expect(m, f"{name}: literal scan `{sl[0]}`")
    intro = m.group(1)
    push = "out.push(Element::String(&str[0..offset]));"
    if sl[1] == push:
        lit = "[EStr (fst r)]"
    else:
        cond, a, b = parse_if(sl[1], name)
        expect(cond == "offset != 0" and a == push and b is None, f"{name}: literal push `{sl[1]}`")
        lit = "match fst r with [] => [] | _ :: _ => [EStr (fst r)] end"
    cond, a, b = parse_if(sl[2], name)
    expect(cond in ("offset == bytes.len()", "bytes.len() == offset") and a == "return Ok(out);" and b is None,
           f"{name}: end test `{sl[2]}`")
    m = re.fullmatch(r"str = &str\[offset( \+ 1)?\.\.\];", sl[3])
    expect(m, f"{name}: skip of the introducer `{sl[3]}`")
    after_pat, after = ("_ :: after", "after") if m.group(1) else ("_ :: _", "(snd r)")
    expect(sl[4:] == ["let code;", "(code, str) = parse_code(str)?;", "bytes = str.as_bytes();", "offset = 0;",
                      "out.push(Element::Code(code));"], f"{name}: loop tail {sl[4:]}")
    return [f"(* {name}: `while offset != bytes.len() && bytes[offset] != b'%' {{ offset += 1 }}` *)",
            "Fixpoint gen_lit_span (s : list N) : list N * list N :=\n"
            "  match s with\n  | [] => ([], [])\n"
            f"  | c :: t => if c =? {intro} then ([], s) else let r := gen_lit_span t in (c :: fst r, snd r)\n  end.",
            f"(* {name}: one turn of `loop` per unit of fuel (the rest handed back by parse_code is a suffix) *)",
            "Fixpoint gen_parse_codes_f (fuel : nat) (s : list N) : res (list element) :=\n"
            "  match fuel with\n  | O => Err EFuel\n  | S f =>\n"
            "      let r := gen_lit_span s in\n"
            f"      let lit := {lit} in\n"
            "      match snd r with\n"
            "      | [] => Ok lit\n"
            f"      | {after_pat} =>\n"
            f"          do cr <- gen_parse_code {after};\n"
            "          do es <- gen_parse_codes_f f (snd cr);\n"
            "          Ok (lit ++ ECode (fst cr) :: es)\n"
            "      end\n  end.",
            "Definition gen_parse_codes (s : list N) : res (list element) := gen_parse_codes_f (S (length s)) s."]


# ------------------------------------------------------------------ format_arr / format_obj
def take_block(block, vals, what):
    """a `{ ..; EXPR }` block over the value slice -> Gallina of type res (X * list value)"""
    ss = stmts(block)
    expect(ss, f"{what}: empty block")
    empty, bound, cur = None, False, vals
    for st in ss[:-1]:
        if st.startswith("if values.is_empty()"):
            cond, a, b = parse_if(st, what)
            expect(cond == "values.is_empty()" and b is None and not bound, f"{what}: guard `{st}`")
            empty = "Err " + bail_of(a, what)
        elif st == "let value = &values[0];":
            expect(not bound, f"{what}: value bound twice")
            bound = True
        elif st == "values = &values[1..];":
            expect(bound and cur == vals, f"{what}: slice advanced before the value is read / twice")
            cur = "rest"
        else:
            fail(f"{what}: statement `{st[:60]}`")
    fin = ss[-1]
    if fin == "u16::from_untyped(value.clone())?":
        res = f"do n <- star_of value; Ok (n, {cur})"
    elif fin == "Some(u16::from_untyped(value.clone())?)":
        res = f"do n <- star_of value; Ok (Some n, {cur})"
    elif fin == "value":
        res = f"Ok (value, {cur})"
    else:
        fail(f"{what}: result `{fin[:60]}`")
    expect(bound, f"{what}: `value` is not bound")
    return (f"match {vals} with\n               | [] => {empty or 'Err EPanic'}\n"
            f"               | value :: rest => {res}\n               end")


def split_arms(s):
    arms, depth, cur, i = [], 0, "", 0
    while i < len(s):
        ch = s[i]
        if ch in "([{":
            depth += 1
        elif ch in ")]}":
            depth -= 1
        cur += ch
        if depth == 0 and (ch == "," or (ch == "}" and "=>" in cur)):
            arms.append(cur.rstrip(",").strip())
            cur = ""
        i += 1
    if cur.strip():
        arms.append(cur.strip())
    out = []
    for a in arms:
        if not a:
            continue
        m = re.match(r"(.+?) => (.+)$", a)
        expect(m, f"match arm `{a[:50]}`")
        out.append((m.group(1).strip(), m.group(2).strip()))
    return out


def unbrace(s):
    s = s.strip()
    if s.startswith("{"):
        inner, rest = braced(s)
        expect(rest == "", f"text after block `{rest[:30]}`")
        return inner
    return s


def code_body(text, name):
    """-> (statements before the for loop, statements of the Element::Code arm, statements after the loop)"""
    sig, body = fn_body(text, name)
    ss = stmts(body)
    idx = [i for i, s in enumerate(ss) if s.startswith("for ")]
    expect(len(idx) == 1, f"{name}: expected one for loop")
    m = re.match(r"for code in codes \{", ss[idx[0]])
    expect(m, f"{name}: loop head `{ss[idx[0]][:40]}`")
    loop, rest = braced(ss[idx[0]][m.end() - 1:], name)
    expect(rest == "", f"{name}: text after loop")
    m = re.match(r"match code \{", loop)
    expect(m, f"{name}: loop body must be `match code`")
    arms_s, rest = braced(loop[m.end() - 1:], name)
    expect(rest == "", f"{name}: text after match")
    arms = split_arms(arms_s)
    expect(len(arms) == 2 and arms[0][0] == "Element::String(s)" and arms[1][0] == "Element::Code(c)",
           f"{name}: arms {[a[0] for a in arms]}")
    expect(unbrace(arms[0][1]) == "out.push_str(s);", f"{name}: string arm `{arms[0][1]}`")
    return sig, ss[:idx[0]], stmts(unbrace(arms[1][1])), ss[idx[0] + 1:]


def tr_format_arr(text):
    name = "format_arr"
    sig, pre, cs, post = code_body(text, name)
    expect("mut values: &[Val]" in sig, f"{name}: signature `{sig}`")
    expect(pre[:2] == ["let codes = parse_codes(str)?;", "let mut out = String::new();"]
           and all(p == "let value_count = values.len();" for p in pre[2:]), f"{name}: preamble {pre}")
    env, cur, lines, k = {}, "vals", [], 0
    call = None
    for st in cs:
        m = re.match(r"let (\w+) = (match|if) (.+?) \{", st)
        if m:
            expect(call is None and st.endswith(";"), f"{name}: statement after format_code")
            k += 1
            var, kind, scrut = m.group(1), m.group(2), m.group(3)
            rhs = st[st.index("=") + 1:].rstrip(";").strip()
            if kind == "match":
                arms_s, rest = braced(rhs[rhs.index("{"):], name)
                expect(rest == "", f"{name}: text after match")
                arms = split_arms(arms_s)
                if scrut == "c.width":
                    pats = {"Width::Star": "WStar", "Width::Fixed(n)": "WFixed n"}
                    sc = "c_width c"
                elif scrut == "c.precision":
                    pats = {"Some(Width::Star)": "Some WStar", "Some(Width::Fixed(n))": "Some (WFixed n)",
                            "None": "None"}
                    sc = "c_prec c"
                else:
                    fail(f"{name}: match on `{scrut}`")
                expect(sorted(p for p, _ in arms) == sorted(pats), f"{name}: arms of `{scrut}`: {[p for p, _ in arms]}")
                garms = []
                for p, b in arms:
                    b = b.strip()
                    if b.startswith("{"):
                        g = take_block(unbrace(b), cur, f"{name} `{var}` arm {p}")
                    elif b == "n" and "n" in pats[p]:
                        g = f"Ok (n, {cur})"
                    elif b == "Some(n)" and "n" in pats[p]:
                        g = f"Ok (Some n, {cur})"
                    elif b == "None":
                        g = f"Ok (None, {cur})"
                    else:
                        fail(f"{name}: arm `{p} => {b[:40]}`")
                    garms.append(f"             | {pats[p]} => {g}")
                lines.append(f"do r{k} <- match {sc} with\n" + "\n".join(garms) + "\n             end;")
            else:
                cond, a, b = parse_if(rhs, name)
                expect(cond == "c.convtype == ConvTypeV::Percent" and b is not None, f"{name}: test `{cond}`")

                def branch(x):
                    if x == "&Val::Null":
                        return f"Ok (VOpq [], {cur})"
                    return take_block(x, cur, f"{name} `{var}`")
                lines.append(f"do r{k} <- match c_type c with\n"
                             f"             | GPercent => {branch(a)}\n"
                             f"             | _ => {branch(b)}\n             end;")
            env[var] = f"(fst r{k})"
            cur = f"(snd r{k})"
            continue
        m = re.fullmatch(r"format_code\(&mut out, (\w+), &c, (\w+), (\w+)\)\?;", st)
        if m:
            expect(call is None and all(v in env for v in m.groups()), f"{name}: format_code call `{st}`")
            call = f"do o <- format_code {env[m.group(1)]} c {env[m.group(2)]} {env[m.group(3)]};\n    Ok (o, {cur})"
            continue
        fail(f"{name}: statement `{st[:60]}`")
    expect(call is not None, f"{name}: no format_code call")
    end = "Ok []"
    expect(post and post[-1] == "Ok(out)", f"{name}: result `{post[-1:]}`")
    for st in post[:-1]:
        expect(re.fullmatch(r"if !values\.is_empty\(\) \{ bail!\(STR_\d+(?:, [\w .+()]*)?\);? \}",
                            st), f"{name}: statement after the loop `{st[:70]}`")
        end = "match vals with [] => Ok [] | _ :: _ => Err ETooMany end"
    return ["  (* format_arr, the Element::Code arm: statements in source order; r<k> = (value, remaining slice) *)",
            "  Definition gen_step_arr (c : code) (vals : list value) : res (list N * list value) :=\n    "
            + "\n    ".join(lines) + "\n    " + call + ".",
            "  (* format_arr: `for code in codes`, then the leftover test *)",
            "  Fixpoint gen_run_arr (es : list element) (vals : list value) : res (list N) :=\n"
            "    match es with\n"
            f"    | [] => {end}\n"
            "    | EStr s :: t => do r <- gen_run_arr t vals; Ok (s ++ r)\n"
            "    | ECode c :: t => do ov <- gen_step_arr c vals; do r <- gen_run_arr t (snd ov); Ok (fst ov ++ r)\n"
            "    end.",
            "  Definition gen_format_arr (fmt : list N) (vals : list value) : res (list N) :=\n"
            "    do es <- gen_parse_codes fmt; gen_run_arr es vals."]


def tr_format_obj(text):
    name = "format_obj"
    sig, pre, cs, post = code_body(text, name)
    expect(pre == ["let codes = parse_codes(str)?;", "let mut out = String::new();"] and post == ["Ok(out)"],
           f"{name}: frame {pre} {post}")
    env, lines, k, call = {}, [], 0, None
    for st in cs:
        if st == "let f: IStr = c.mkey.into();":
            env["f"] = "(c_mkey c)"
            continue
        m = re.match(r"let (\w+) = (match|if) (.+?) \{", st)
        if m:
            expect(call is None and st.endswith(";"), f"{name}: statement after format_code")
            k += 1
            var, kind, scrut = m.group(1), m.group(2), m.group(3)
            rhs = st[st.index("=") + 1:].rstrip(";").strip()
            if kind == "match":
                arms_s, rest = braced(rhs[rhs.index("{"):], name)
                arms = split_arms(arms_s)
                if scrut == "c.width":
                    pats, sc = {"Width::Star": "WStar", "Width::Fixed(n)": "WFixed n"}, "c_width c"
                elif scrut == "c.precision":
                    pats, sc = {"Some(Width::Star)": "Some WStar", "Some(Width::Fixed(n))": "Some (WFixed n)",
                                "None": "None"}, "c_prec c"
                else:
                    fail(f"{name}: match on `{scrut}`")
                expect(sorted(p for p, _ in arms) == sorted(pats), f"{name}: arms of `{scrut}`")
                garms = []
                for p, b in arms:
                    b = b.strip()
                    if b.startswith("{"):
                        g = "Err " + bail_of(unbrace(b), name)
                    elif b == "n" and "n" in pats[p]:
                        g = "Ok n"
                    elif b == "Some(n)" and "n" in pats[p]:
                        g = "Ok (Some n)"
                    elif b == "None":
                        g = "Ok None"
                    else:
                        fail(f"{name}: arm `{p} => {b[:40]}`")
                    garms.append(f"| {pats[p]} => {g}")
                lines.append(f"do r{k} <- match {sc} with " + " ".join(garms) + " end;")
            else:
                cond, a, b = parse_if(rhs, name)
                expect(cond == "c.convtype == ConvTypeV::Percent" and a == "Val::Null" and b is not None and "f" in env,
                       f"{name}: value `{cond}` `{a}`")
                sb = stmts(b)
                guard = None
                if len(sb) == 2:
                    c2, a2, b2 = parse_if(sb[0], name)
                    expect(c2 == "f.is_empty()" and b2 is None, f"{name}: key guard `{c2}`")
                    guard = "Err " + bail_of(a2, name)
                    sb = sb[1:]
                expect(sb == ["if let Some(v) = values.get(f.clone())? { v } else { get_dotted_field(values.clone(), &f)? }"],
                       f"{name}: lookup `{sb}`")
                look = (f"match field_get {env['f']} fs with Some v => Ok v "
                        f"| None => get_path (split_dot {env['f']} []) (VObj fs []) end")
                if guard:
                    look = f"match {env['f']} with [] => {guard} | _ :: _ => {look} end"
                lines.append(f"do r{k} <- match c_type c with\n             | GPercent => Ok (VOpq [])\n"
                             f"             | _ => {look}\n             end;")
            env[var] = f"r{k}"
            continue
        m = re.fullmatch(r"format_code\(&mut out, &(\w+), &c, (\w+), (\w+)\)\?;", st)
        if m:
            expect(call is None and all(v in env for v in m.groups()), f"{name}: format_code call `{st}`")
            call = f"format_code {env[m.group(1)]} c {env[m.group(2)]} {env[m.group(3)]}"
            continue
        fail(f"{name}: statement `{st[:60]}`")
    expect(call is not None, f"{name}: no format_code call")
    return ["  (* format_obj, the Element::Code arm *)",
            "  Definition gen_step_obj (c : code) (fs : list (list N * value)) : res (list N) :=\n    "
            + "\n    ".join(lines) + "\n    " + call + ".",
            "  Fixpoint gen_run_obj (es : list element) (fs : list (list N * value)) : res (list N) :=\n"
            "    match es with\n    | [] => Ok []\n"
            "    | EStr s :: t => do r <- gen_run_obj t fs; Ok (s ++ r)\n"
            "    | ECode c :: t => do o <- gen_step_obj c fs; do r <- gen_run_obj t fs; Ok (o ++ r)\n    end.",
            "  Definition gen_format_obj (fmt : list N) (fs : list (list N * value)) : res (list N) :=\n"
            "    do es <- gen_parse_codes fmt; gen_run_obj es fs."]


@generator("GenFormatParse")
def gen_formatparse():
    raw = src("crates/jrsonnet-evaluator/src/stdlib/format.rs")
    text, strs = mask(raw)
    for i, s in enumerate(strs):
        if s == "":
            text = re.sub(rf"\bSTR_{i}\b", "STR_EMPTY", text)
    out = ["From Coq Require Import List ZArith NArith Bool.",
           "From JrV Require Import Gen.GenFormat C12.Model.",
           "Import ListNotations.", "Open Scope N_scope.",
           "(* u16 checked arithmetic with exact result n, `.ok_or(e)?` *)",
           "Definition chk16e (e : err) (n : N) : res N := if n <=? u16_max then Ok n else Err e."]
    for tr in (tr_mapping_key, tr_cflags, tr_field_width, tr_precision, tr_lenmod, tr_convtype, tr_parse_code,
               tr_parse_codes):
        out += tr(text)
    out += ["Section GenRun.", "  Variable star_of : value -> res N.",
            "  Variable format_code : value -> code -> N -> option N -> res (list N)."]
    out += tr_format_arr(text)
    out += tr_format_obj(text)
    out += ["End GenRun.", ""]
    return "\n".join(out)
