"""GenStr.v (C11): what the string builtins of crates/jrsonnet-stdlib/src/{strings.rs,manifest/xml.rs,
manifest/mod.rs,misc.rs} are driven by, read from the working tree:

  * the character set of std.trim's filter closure,
  * escapeStringBash's QUOTE, its replacement text and the wrapping,
  * escapeStringDollars' (character, replacement) pair,
  * escapeStringXML's byte class (`matches!`) and its byte -> entity arms,
  * the bases and the sign character of parseInt / parseOctal / parseHex,
  * which `str` method asciiUpper / asciiLower call, the skip/take order of substr.

Every builtin body is matched as a whole (comments stripped, white space collapsed) against the
one shape the C11 impl-model transliterates; anything else raises TranslateError (fail closed):
a source edit is either translated into the generated definitions (and then re-judged by the
C11 theorems and by the differential run) or reported, never ignored.
"""
import re

from gen import TranslateError, generator, src

STRINGS = "crates/jrsonnet-stdlib/src/strings.rs"
XML = "crates/jrsonnet-stdlib/src/manifest/xml.rs"
MMOD = "crates/jrsonnet-stdlib/src/manifest/mod.rs"
MISC = "crates/jrsonnet-stdlib/src/misc.rs"

SIMPLE_ESC = {"n": 10, "t": 9, "r": 13, "0": 0, "\\": 92, "'": 39, '"': 34}


def strip_comments(text):
    """remove // and /* */ comments outside string / char literals"""
    out, i, n = [], 0, len(text)
    while i < n:
        c = text[i]
        if c == '"':
            j = i + 1
            while j < n and text[j] != '"':
                j += 2 if text[j] == "\\" else 1
            out.append(text[i:j + 1])
            i = j + 1
        elif c == "'" and re.match(r"'(\\u\{[0-9a-fA-F]+\}|\\.|[^\\'])'", text[i:]):
            m = re.match(r"'(\\u\{[0-9a-fA-F]+\}|\\.|[^\\'])'", text[i:])
            out.append(m.group(0))
            i += m.end()
        elif text.startswith("//", i):
            while i < n and text[i] != "\n":
                i += 1
        elif text.startswith("/*", i):
            j = text.find("*/", i + 2)
            if j < 0:
                raise TranslateError("unterminated block comment")
            i = j + 2
        else:
            out.append(c)
            i += 1
    return "".join(out)


def norm(s):
    """collapse white space outside literals; drop it around punctuation"""
    toks = re.findall(r'"(?:\\.|[^"\\])*"|b?\'(?:\\u\{[0-9a-fA-F]+\}|\\.|[^\\\'])\'|\s+|[A-Za-z_0-9]+|.', s, re.S)
    toks = [t for t in toks if not t.isspace()]
    out = []
    for t in toks:
        # a space matters only between two word tokens
        if out and re.fullmatch(r"\w+", out[-1]) and re.fullmatch(r"\w+", t):
            out.append(" ")
        out.append(t)
    return "".join(out)


def fn_item(text, name, what, kw=r"pub (?:const )?fn"):
    """(attributes+signature, body) of the function item `name`, comments stripped, normalised"""
    ms = list(re.finditer(r"(?:#\[[^\]]*\]\s*)*" + kw + r"\s+" + re.escape(name) + r"\b", text))
    if len(ms) != 1:
        raise TranslateError(f"{what}: expected exactly one `fn {name}`, found {len(ms)}")
    m = ms[0]
    i = text.index("{", m.end())
    depth, j = 0, i
    in_str = None
    while j < len(text):
        c = text[j]
        if in_str:
            if c == "\\":
                j += 1
            elif c == in_str:
                in_str = None
        elif c == '"':
            in_str = '"'
        elif c == "'" and re.match(r"'(\\u\{[0-9a-fA-F]+\}|\\.|[^\\'])'", text[j:]):
            j += re.match(r"'(\\u\{[0-9a-fA-F]+\}|\\.|[^\\'])'", text[j:]).end() - 1
        elif c == "{":
            depth += 1
        elif c == "}":
            depth -= 1
            if depth == 0:
                return norm(text[m.start():i]), norm(text[i + 1:j])
        j += 1
    raise TranslateError(f"{what}: unbalanced braces")


def char_lit(tok, what):
    """Rust char / byte literal -> code"""
    m = re.fullmatch(r"b?'(.*)'", tok, re.S)
    if not m:
        raise TranslateError(f"{what}: `{tok}` is not a character literal")
    body = m.group(1)
    is_byte = tok.startswith("b")
    mu = re.fullmatch(r"\\u\{([0-9a-fA-F]+)\}", body)
    if mu and not is_byte:
        v = int(mu.group(1), 16)
    elif re.fullmatch(r"\\x[0-9a-fA-F]{2}", body):
        v = int(body[2:], 16)
    elif len(body) == 2 and body[0] == "\\" and body[1] in SIMPLE_ESC:
        v = SIMPLE_ESC[body[1]]
    elif len(body) == 1 and body != "\\":
        v = ord(body)
    else:
        raise TranslateError(f"{what}: cannot read character literal `{tok}`")
    if is_byte and v > 255:
        raise TranslateError(f"{what}: byte literal out of range `{tok}`")
    if v > 0x10FFFF or 0xD800 <= v <= 0xDFFF:
        raise TranslateError(f"{what}: not a scalar value `{tok}`")
    return v


def str_lit(tok, what):
    """Rust string literal -> list of code points"""
    m = re.fullmatch(r'"(.*)"', tok, re.S)
    if not m:
        raise TranslateError(f"{what}: `{tok}` is not a string literal")
    body, out, i = m.group(1), [], 0
    while i < len(body):
        c = body[i]
        if c == "\\":
            mu = re.match(r"\\u\{([0-9a-fA-F]+)\}", body[i:])
            if mu:
                out.append(int(mu.group(1), 16))
                i += mu.end()
            elif i + 1 < len(body) and body[i + 1] in SIMPLE_ESC:
                out.append(SIMPLE_ESC[body[i + 1]])
                i += 2
            else:
                raise TranslateError(f"{what}: unsupported escape in {tok}")
        else:
            out.append(ord(c))
            i += 1
    return out


def whole(pattern, body, what):
    m = re.fullmatch(pattern, body, re.S)
    if not m:
        raise TranslateError(f"{what}: body not in the translated shape: `{body[:200]}`")
    return m


def nl(xs):
    return "[" + "; ".join(str(x) for x in xs) + "]"


CH = r"b?'(?:\\u\{[0-9a-fA-F]+\}|\\.|[^\\'])'"
ST = r'"(?:\\.|[^"\\])*"'
ASCII_METHODS = {"to_ascii_uppercase": 1, "to_ascii_lowercase": 2}


@generator("GenStr")
def gen_str():
    s = strip_comments(src(STRINGS))
    x = strip_comments(src(XML))
    mm = strip_comments(src(MMOD))
    misc = strip_comments(src(MISC))

    # ---- std.trim: the filter closure is a disjunction of `v == 'c'`
    sig, body = fn_item(s, "builtin_trim", "trim")
    whole(r"#\[builtin\]pub fn builtin_trim\(str:IStr\)->String", sig, "trim signature")
    m = whole(r"let filter=\|v:char\|\{(.+)\};str\.as_str\(\)\.trim_matches\(filter\)\.to_string\(\)", body, "trim")
    alts = m.group(1).split("||")
    trim_set = []
    for a in alts:
        ma = re.fullmatch(r"v==(" + CH + r")", a)
        if not ma:
            raise TranslateError(f"trim: filter alternative `{a}` is not `v == 'c'`")
        trim_set.append(char_lit(ma.group(1), "trim"))

    # ---- escapeStringBash
    sig, body = fn_item(s, "builtin_escape_string_bash", "escapeStringBash")
    whole(r"#\[builtin\]pub fn builtin_escape_string_bash\(str_:String\)->String", sig, "escapeStringBash signature")
    m = whole(r"const QUOTE:char=(" + CH + r");let mut out=str_\.replace\(QUOTE,(" + ST + r")\);"
              r"out\.insert\(0,QUOTE\);out\.push\(QUOTE\);out", body, "escapeStringBash")
    bash_quote = char_lit(m.group(1), "escapeStringBash")
    bash_repl = str_lit(m.group(2), "escapeStringBash")

    # ---- escapeStringDollars
    sig, body = fn_item(s, "builtin_escape_string_dollars", "escapeStringDollars")
    whole(r"#\[builtin\]pub fn builtin_escape_string_dollars\(str_:String\)->String", sig, "escapeStringDollars signature")
    m = whole(r"str_\.replace\((" + CH + r"),(" + ST + r")\)", body, "escapeStringDollars")
    dollar_char = char_lit(m.group(1), "escapeStringDollars")
    dollar_repl = str_lit(m.group(2), "escapeStringDollars")

    # ---- strReplace
    sig, body = fn_item(s, "builtin_str_replace", "strReplace")
    whole(r"#\[builtin\]pub fn builtin_str_replace\(str:String,from:IStr,to:IStr\)->Result<String>", sig, "strReplace signature")
    whole(r"if from\.is_empty\(\)\{bail!\(" + ST + r"\);\}Ok\(str\.replace\(&from as&str,&to as&str\)\)", body, "strReplace")

    # ---- escapeStringXML: builtin -> escape_string_xml -> escape_string_xml_buf
    sig, body = fn_item(mm, "builtin_escape_string_xml", "escapeStringXML")
    whole(r"#\[builtin\]pub fn builtin_escape_string_xml\(str_:String\)->String", sig, "escapeStringXML signature")
    whole(r"xml::escape_string_xml\(str_\.as_str\(\)\)", body, "escapeStringXML")
    sig, body = fn_item(x, "escape_string_xml", "escape_string_xml")
    whole(r"pub fn escape_string_xml\(str:&str\)->String", sig, "escape_string_xml signature")
    whole(r"let mut out=String::new\(\);escape_string_xml_buf\(str,&mut out\);out", body, "escape_string_xml")
    sig, body = fn_item(x, "escape_string_xml_buf", "escape_string_xml_buf", kw=r"fn")
    whole(r"fn escape_string_xml_buf\(str:&str,out:&mut String\)", sig, "escape_string_xml_buf signature")
    m = whole(r"if str\.is_empty\(\)\{return;\}let mut remaining=str;let mut found=false;"
              r"while let Some\(position\)=remaining\.bytes\(\)\.position\(\|c\|matches!\(c,([^)]*)\)\)\{"
              r"found=true;let\(plain,rem\)=remaining\.split_at\(position\);out\.push_str\(plain\);"
              r"out\.push_str\(match rem\.as_bytes\(\)\[0\]\{(.*?)_=>unreachable!\(" + ST + r"\),\}\);"
              r"remaining=&rem\[1\.\.\];\}"
              r"if!found\{out\.push_str\(str\);return;\}out\.push_str\(remaining\);", body, "escape_string_xml_buf")
    xml_class = []
    for a in m.group(1).split("|"):
        if not re.fullmatch(CH, a) or not a.startswith("b"):
            raise TranslateError(f"escape_string_xml_buf: `{a}` in matches! is not a byte literal")
        xml_class.append(char_lit(a, "escape_string_xml_buf"))
    arms_txt = m.group(2)
    arms, pos = [], 0
    arm_re = re.compile(r"(" + CH + r")=>(" + ST + r"),")
    while pos < len(arms_txt):
        ma = arm_re.match(arms_txt, pos)
        if not ma or not ma.group(1).startswith("b"):
            raise TranslateError(f"escape_string_xml_buf: match arm not understood at `{arms_txt[pos:pos + 40]}`")
        arms.append((char_lit(ma.group(1), "xml arm"), str_lit(ma.group(2), "xml arm")))
        pos = ma.end()
    if len({a for a, _ in arms}) != len(arms):
        raise TranslateError("escape_string_xml_buf: duplicate match arm")

    # ---- escapeStringJson / escapeStringPython: both call the evaluator's escape_string_json (C05's kernel)
    sig, body = fn_item(mm, "builtin_escape_string_json", "escapeStringJson")
    whole(r"#\[builtin\]pub fn builtin_escape_string_json\(str_:IStr\)->Result<String>", sig, "escapeStringJson signature")
    whole(r"Ok\(escape_string_json\(&str_\)\)", body, "escapeStringJson")
    sig, body = fn_item(mm, "builtin_escape_string_python", "escapeStringPython")
    whole(r"#\[builtin\]pub fn builtin_escape_string_python\(str:IStr\)->Result<String>", sig, "escapeStringPython signature")
    whole(r"Ok\(escape_string_json\(&str\)\)", body, "escapeStringPython")

    # ---- asciiUpper / asciiLower / equalsIgnoreCase / isEmpty / stringChars / substr / codepoint / char / length
    meth = {}
    for fn, key in (("builtin_ascii_upper", "upper"), ("builtin_ascii_lower", "lower")):
        sig, body = fn_item(s, fn, key)
        whole(r"#\[builtin\]pub fn " + fn + r"\(str:IStr\)->String", sig, key + " signature")
        m = whole(r"str\.(\w+)\(\)", body, key)
        if m.group(1) not in ASCII_METHODS:
            raise TranslateError(f"{key}: unknown str method `{m.group(1)}`")
        meth[key] = ASCII_METHODS[m.group(1)]
    sig, body = fn_item(s, "builtin_equals_ignore_case", "equalsIgnoreCase")
    whole(r"#\[builtin\]pub fn builtin_equals_ignore_case\(str1:String,str2:String\)->bool", sig, "equalsIgnoreCase signature")
    whole(r"str1\.eq_ignore_ascii_case\(&str2\)", body, "equalsIgnoreCase")
    sig, body = fn_item(s, "builtin_is_empty", "isEmpty")
    whole(r"#\[builtin\]pub fn builtin_is_empty\(str:String\)->bool", sig, "isEmpty signature")
    whole(r"str\.is_empty\(\)", body, "isEmpty")
    sig, body = fn_item(s, "builtin_string_chars", "stringChars")
    whole(r"#\[builtin\]pub fn builtin_string_chars\(str:IStr\)->ArrValue", sig, "stringChars signature")
    whole(r"ArrValue::chars\(str\.chars\(\)\)", body, "stringChars")
    sig, body = fn_item(s, "builtin_substr", "substr")
    whole(r"#\[builtin\]pub fn builtin_substr\(str:IStr,from:usize,len:usize\)->String", sig, "substr signature")
    whole(r"str\.chars\(\)\.skip\(from\)\.take\(len\)\.collect\(\)", body, "substr")
    sig, body = fn_item(s, "builtin_codepoint", "codepoint")
    whole(r"#\[builtin\]pub const fn builtin_codepoint\(str:char\)->u32", sig, "codepoint signature")
    whole(r"str as u32", body, "codepoint")
    sig, body = fn_item(s, "builtin_char", "char")
    whole(r"#\[builtin\]pub fn builtin_char\(n:u32\)->Result<char>", sig, "char signature")
    whole(r"Ok\(std::char::from_u32\(n\)\.ok_or_else\(\|\|InvalidUnicodeCodepointGot\(n\)\)\?\)", body, "char")
    sig, body = fn_item(misc, "builtin_length", "length")
    m = whole(r"use Either4::\*;match x\{A\(x\)=>x\.chars\(\)\.count\(\),B\(x\)=>x\.len\(\),C\(x\)=>x\.len\(\),"
              r"D\(f\)=>f\.params_len\(\),\}", body, "length")

    # ---- strip family: the two guards and the trim_* method of each builtin
    strip_m = {}
    for fn, key, method in (("builtin_lstrip_chars", "lstrip", "trim_start_matches"),
                            ("builtin_rstrip_chars", "rstrip", "trim_end_matches"),
                            ("builtin_strip_chars", "strip", "trim_matches")):
        sig, body = fn_item(s, fn, key)
        whole(r"#\[builtin\]pub fn " + fn + r"\(str:IStr,chars:IndexableVal\)->Result<IStr>", sig, key + " signature")
        m = whole(r"if str\.is_empty\(\)\|\|chars\.is_empty\(\)\{return Ok\(str\);\}"
                  r"let pattern=new_trim_pattern\(chars\)\?;Ok\(str\.as_str\(\)\.(\w+)\(pattern\)\.into\(\)\)", body, key)
        if m.group(1) not in ("trim_start_matches", "trim_end_matches", "trim_matches"):
            raise TranslateError(f"{key}: unknown method {m.group(1)}")
        strip_m[key] = {"trim_start_matches": 1, "trim_end_matches": 2, "trim_matches": 3}[m.group(1)]
    sig, body = fn_item(s, "new_trim_pattern", "new_trim_pattern", kw=r"fn")
    whole(r"let chars:BTreeSet<char>=match chars\{IndexableVal::Str\(chars\)=>chars\.chars\(\)\.collect\(\),"
          r"IndexableVal::Arr\(chars\)=>chars\.iter\(\)\.filter_map\(\|it\|it\.map\(\|it\|char::from_untyped\(it\)\.ok\(\)\)"
          r"\.transpose\(\)\)\.collect::<Result<_,_>>\(\)\?,\};Ok\(move\|char\|chars\.contains\(&char\)\)", body,
          "new_trim_pattern")

    # ---- parseInt / parseOctal / parseHex
    sig, body = fn_item(s, "builtin_parse_int", "parseInt")
    whole(r"#\[builtin\]pub fn builtin_parse_int\(str:IStr\)->Result<f64>", sig, "parseInt signature")
    m = whole(r"if let Some\(raw\)=str\.strip_prefix\((" + CH + r")\)\{if raw\.is_empty\(\)\{bail!\(" + ST + r"\)\}"
              r"parse_nat::<(\d+)>\(raw\)\.map\(\|value\|-value\)\}else\{if str\.is_empty\(\)\{bail!\(" + ST + r"\)\}"
              r"parse_nat::<(\d+)>\(str\.as_str\(\)\)\}", body, "parseInt")
    minus = char_lit(m.group(1), "parseInt")
    int_base_neg, int_base_pos = int(m.group(2)), int(m.group(3))
    bases = {}
    for fn, key in (("builtin_parse_octal", "octal"), ("builtin_parse_hex", "hex")):
        sig, body = fn_item(s, fn, key)
        whole(r"#\[builtin\]pub fn " + fn + r"\(str:IStr\)->Result<f64>", sig, key + " signature")
        m = whole(r"if str\.is_empty\(\)\{bail!\(" + ST + r"\);\}parse_nat::<(\d+)>\(str\.as_str\(\)\)", body, key)
        bases[key] = int(m.group(1))

    # ---- resolvePath (arrays.rs)
    arr = strip_comments(src("crates/jrsonnet-stdlib/src/arrays.rs"))
    sig, body = fn_item(arr, "builtin_resolve_path", "resolvePath")
    whole(r"#\[builtin\]pub fn builtin_resolve_path\(f:String,r:String\)->String", sig, "resolvePath signature")
    m = whole(r"let Some\(pos\)=f\.rfind\((" + CH + r")\)else\{return r;\};format!\(\"\{\}\{\}\",&f\[\.\.=pos\],r\)", body,
              "resolvePath")
    path_sep = char_lit(m.group(1), "resolvePath")

    ent = "; ".join(f"({a}, {nl(b)})" for a, b in arms)
    return (
        "From Coq Require Import NArith List.\nImport ListNotations.\nOpen Scope N_scope.\n"
        "(* strings.rs builtin_trim: the characters the filter closure accepts *)\n"
        f"Definition trim_filter : list N := {nl(trim_set)}.\n"
        "(* strings.rs builtin_escape_string_bash: QUOTE, what every QUOTE is replaced by; QUOTE is put in front and pushed at the end *)\n"
        f"Definition bash_quote : N := {bash_quote}.\n"
        f"Definition bash_repl : list N := {nl(bash_repl)}.\n"
        "(* strings.rs builtin_escape_string_dollars: str_.replace(c, repl) *)\n"
        f"Definition dollars_char : N := {dollar_char}.\n"
        f"Definition dollars_repl : list N := {nl(dollar_repl)}.\n"
        "(* manifest/xml.rs escape_string_xml_buf: the byte class of `matches!` and the arms byte => entity *)\n"
        f"Definition xml_class : list N := {nl(xml_class)}.\n"
        f"Definition xml_arms : list (N * list N) := [{ent}].\n"
        "(* asciiUpper / asciiLower: 1 = str::to_ascii_uppercase, 2 = str::to_ascii_lowercase *)\n"
        f"Definition upper_method : N := {meth['upper']}.\n"
        f"Definition lower_method : N := {meth['lower']}.\n"
        "(* lstripChars / rstripChars / stripChars: 1 = trim_start_matches, 2 = trim_end_matches, 3 = trim_matches *)\n"
        f"Definition lstrip_method : N := {strip_m['lstrip']}.\n"
        f"Definition rstrip_method : N := {strip_m['rstrip']}.\n"
        f"Definition strip_method : N := {strip_m['strip']}.\n"
        "(* parseInt: strip_prefix(minus), parse_nat::<base> on either branch; parseOctal / parseHex bases *)\n"
        f"Definition parse_int_minus : N := {minus}.\n"
        f"Definition parse_int_base_neg : N := {int_base_neg}.\n"
        f"Definition parse_int_base_pos : N := {int_base_pos}.\n"
        f"Definition parse_octal_base : N := {bases['octal']}.\n"
        f"Definition parse_hex_base : N := {bases['hex']}.\n"
        "(* arrays.rs builtin_resolve_path: f.rfind(c) *)\n"
        f"Definition path_sep : N := {path_sep}.\n"
    )
