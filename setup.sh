#!/bin/sh
# One-time build after a fresh restore (offline): all Coq proofs, the harness, nothing under /tmp.
set -e
cd "$(dirname "$0")"
export CARGO_NET_OFFLINE=true
mkdir -p .cache evidence replays
python3 translator/gen.py
python3 - <<'PY'
import sys
sys.path.insert(0, '.')
from vlib import core
core.coq_prepare()
PY
(cd coq && timeout 3000 make -j16 > ../.cache/coq-build.log 2>&1) || { tail -40 .cache/coq-build.log; exit 1; }
python3 -c "import sys; sys.path.insert(0,'.'); from vlib import core; core.render_harness_manifest()"
(cd harness && RUSTFLAGS="--cfg jrsonnet_verif" CARGO_TARGET_DIR="$PWD/../.cache/target" cargo build --offline --quiet)
(cd "${VERIF_REPO:-/repo}" && CARGO_PROFILE_DEV_DEBUG=0 RUSTFLAGS="--cfg jrsonnet_verif" cargo build --offline --quiet -p jrsonnet -p jrsonnet-fmt -p jrsonnet-deps -p libjsonnet --target-dir "$OLDPWD/.cache/target-repo")
echo setup done
