#!/usr/bin/env python3
"""tools/mkseed.py <tag> <property id> [extra hint]: creates /tmp/seed/<tag> (worktree) and /tmp/seed/<tag>-out/TASK.txt"""
import json, os, subprocess, sys
tag, pid = sys.argv[1], sys.argv[2]
avoid = sys.argv[3] if len(sys.argv) > 3 else ""
W, O = f"/tmp/seed/{tag}", f"/tmp/seed/{tag}-out"
subprocess.run(["git", "-C", "/repo", "worktree", "add", "--detach", W, "HEAD", "-q"], check=True)
os.makedirs(O, exist_ok=True)
prop = next(json.loads(l) for l in open("/verif/properties.jsonl") if json.loads(l)["id"] == pid)
task = f"""TASK (read completely before doing anything)

You are working on a scratch git worktree of the open-source project CertainLach/jrsonnet (a Rust
implementation of the Jsonnet language) at {W}. It builds offline (`cargo build --offline`), and
its test suite runs with:  cd {W} && cargo test --workspace --no-fail-fast --offline
(one test target, tests/cpp_test_suite.rs, fails on the unchanged tree because an external directory
is missing; that is expected; everything else passes). There is no network access of any kind.
Work ONLY inside {W} and {O}. Do not read or touch /verif, /work or /repo.

Below is a semantic PROPERTY that this code base is supposed to satisfy (JSON: title, statement, the
quantifier it ranges over, why ordinary tests cannot settle it, and the source anchors).

{json.dumps(prop, indent=1, ensure_ascii=False)}

YOUR JOB: make ONE realistic source change in {W} (the kind of change a maintainer could plausibly make
by mistake during a refactoring, optimisation or "simplification": an off-by-one, a dropped case, a
wrong order, a cache key that forgets a component, a fast path that is not equivalent, state that is
not reset ...) such that
  1. the project still compiles (`cargo build --offline --workspace`),
  2. the whole existing test suite still passes exactly as before
     (`cargo test --workspace --no-fail-fast --offline`; only cpp_test_suite may fail),
  3. the PROPERTY above is now violated, and
  4. the violation needs something SPECIFIC to manifest (a particular shape of input, a particular
     order of operations, a particular history or configuration) - it must not show up on most
     inputs, and it must not be a crude sabotage (no special-casing of magic constants, no random
     behaviour, no deliberately planted `if input == ...`).
{("AVOID these ideas, they were already used: " + avoid) if avoid else ""}
Keep the change small (one or two hunks in one or two files under crates/ or cmds/ or bindings/).
Do NOT edit tests, snapshots or golden files. Do NOT commit; leave the change in the working tree
(it will be read with `git diff`).

DELIVERABLES, all in {O}:
  * demo.sh  - a POSIX shell script taking ONE argument, the path of a built `jrsonnet` executable
    (target/debug/jrsonnet of some tree; if your demonstration needs `jrsonnet-fmt`, `jrsonnet-deps`
    or `libjsonnet.so` instead, take them from the same directory as the argument, i.e.
    $(dirname "$1")/..., and say so in a comment at the top; build what you need with
    `cargo build --offline -p <package>`). It must print to stdout something that differs between the
    unchanged tree and your changed tree and makes the violation of the property evident. Put any
    input files it needs next to it and refer to them relative to the script's own directory.
    It must be deterministic.
  * expected.txt - the output of demo.sh on the UNCHANGED tree (use `git stash` to build the unchanged
    executable, or build it before making your change; copy the executables you need into {O}
    under names starting with `jrsonnet` if convenient).
  * actual.txt - the output of demo.sh on YOUR CHANGED tree.
  * meta.json - {{"property": "{pid}", "summary": what you changed and why it breaks the property,
    "what_it_needs_to_manifest": precise description of the inputs/histories that show it and of the
    ones that do not, "files_changed": [...], "tests_run": what you ran and its result,
    "why_tests_miss_it": ...}}
  * test_changed.log - the output of the test command on your changed tree.
At the end, make sure the changed tree is BUILT (cargo build --offline --workspace) with your change
applied and not stashed. Report in a few lines what you changed and how it manifests.
"""
open(os.path.join(O, "TASK.txt"), "w").write(task)
print(W, O)
