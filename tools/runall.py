#!/usr/bin/env python3
"""run every claimed check once (quick tier), sequentially; summary at the end"""
import json, subprocess, sys, time, os
os.chdir(os.path.dirname(os.path.dirname(os.path.abspath(__file__))))
m = json.load(open("MANIFEST.json"))
only = sys.argv[1:]
res = []
for c in m["checks"]:
    pid = c["property_id"]
    if only and pid not in only:
        continue
    t = time.time()
    p = subprocess.run(c["quick_cmd"], shell=True, stdout=subprocess.PIPE, stderr=subprocess.STDOUT, text=True)
    dt = time.time() - t
    viol = [l for l in p.stdout.split("\n") if l.startswith("VIOLATION")]
    known = [l for l in p.stdout.split("\n") if l.startswith("KNOWN-FINDING")]
    res.append((pid, p.returncode, round(dt), len(viol), len(known)))
    print(pid, "rc", p.returncode, f"{dt:.0f}s", "violations", len(viol), "known", len(known), flush=True)
    if p.returncode != 0:
        print("\n".join(p.stdout.split("\n")[-12:]), flush=True)
print(res)
