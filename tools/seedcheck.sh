#!/bin/sh
# usage: tools/seedcheck.sh <seed dir name under /tmp/seed> <property ids to check...>
# confirms the seeded change (demo differs, tests pass) and runs the given checks against it
set -u
S=$1; shift
W=/tmp/seed/$S; O=/tmp/seed/$S-out
cd /verif
echo "== diff stat"; git -C $W diff --stat | tail -3
echo "== demo on seeded tree"; (cd $O && sh ./demo.sh $W/target/debug/jrsonnet > /tmp/seed/$S.actual 2>&1); diff -q /tmp/seed/$S.actual $O/actual.txt && echo "actual reproduced"
echo "== demo on unchanged tree"; (cd $O && sh ./demo.sh /verif/.cache/target-repo/debug/jrsonnet > /tmp/seed/$S.expected 2>&1); diff -q /tmp/seed/$S.expected $O/expected.txt && echo "expected reproduced"
diff /tmp/seed/$S.expected /tmp/seed/$S.actual > /dev/null && echo "!!! DEMO DOES NOT DIFFER" || echo "demo differs between trees"
echo "== tests on seeded tree"
(cd $W && cargo test --workspace --no-fail-fast --offline 2>&1 | grep -E "^test result|error: .* target" | sort | uniq -c | sort -rn | head -8)
for P in "$@"; do
  echo "== ./check $P against the seeded tree"
  VERIF_REPO=$W ./check $P 2>&1 | grep -E "^VIOLATION|^#|done:|KNOWN" | head -8
done
