#!/usr/bin/env python3
"""resolve `both sides add a line` merge conflicts (harness/src/main.rs) by keeping both"""
import re, sys
for path in sys.argv[1:]:
    s = open(path).read()
    pat = re.compile(r"<<<<<<< [^\n]*\n(.*?)=======\n(.*?)>>>>>>> [^\n]*\n", re.S)
    def rep(m):
        a, b = m.group(1), m.group(2)
        out = a
        for line in b.splitlines(True):
            if line not in a:
                out += line
        return out
    s = pat.sub(rep, s)
    open(path, "w").write(s)
