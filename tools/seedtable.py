#!/usr/bin/env python3
"""print the markdown table of DESIGN.md section 12 from seeded/*/meta.json"""
import glob, json, os
rows = []
for d in sorted(glob.glob("/verif/seeded/*/")):
    m = json.load(open(os.path.join(d, "meta.json")))
    c = m.get("confirmed_by_lead", {})
    name = os.path.basename(d.rstrip("/"))
    summ = (m.get("summary") or m.get("what") or m.get("description") or "").replace("\n", " ").replace("|", "\\|")
    needs = (m.get("what_it_needs_to_manifest") or m.get("needs") or "").replace("\n", " ").replace("|", "\\|")
    def cut(s, n):
        return s if len(s) <= n else s[:n - 1].rsplit(" ", 1)[0] + " …"
    fr = str(c.get("first_result", ""))
    res = str(c.get("result_after") or c.get("result") or "")
    if not fr:
        fr = "CAUGHT" if "first run" in res.lower() else "?"
    first = "missed" if "MISS" in fr.upper() else "caught"
    detail = fr if first == "missed" else res
    rows.append((name, cut(summ, 230), cut(needs, 200), first,
                 cut(str(c.get("strengthening", "") or "—").replace("|", "\\|"), 260),
                 cut((res if first == "missed" else detail).replace("|", "\\|"), 170)))
print("| seeded change (`seeded/<dir>`) | what was changed | needs, to manifest | first run | strengthening of the check | caught by (VIOLATION reported) |")
print("|---|---|---|---|---|---|")
for r in rows:
    print("| " + " | ".join(r) + " |")
print(f"\n{len(rows)} seeded changes.")
