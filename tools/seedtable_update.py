#!/usr/bin/env python3
"""rewrite the table of DESIGN.md section 12 in place from seeded/*/meta.json (tools/seedtable.py output)"""
import re, subprocess
table = subprocess.run(["python3", "/verif/tools/seedtable.py"], stdout=subprocess.PIPE, text=True).stdout.rstrip("\n")
s = open("/verif/DESIGN.md", encoding="utf-8").read()
a = s.index("| seeded change (`seeded/<dir>`)")
m = re.compile(r"^\d+ seeded changes\.$", re.M).search(s, a)
s = s[:a] + table + s[m.end():]
open("/verif/DESIGN.md", "w", encoding="utf-8").write(s)
print(table.rsplit("\n", 1)[-1])
