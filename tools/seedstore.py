#!/usr/bin/env python3
"""store a confirmed seeded change under /verif/seeded/<name>/: tools/seedstore.py <seeddir> <name> <json extra>"""
import json, os, shutil, subprocess, sys
seed, name, extra = sys.argv[1], sys.argv[2], json.loads(sys.argv[3])
W, O = f"/tmp/seed/{seed}", f"/tmp/seed/{seed}-out"
D = f"/verif/seeded/{name}"
os.makedirs(D, exist_ok=True)
diff = subprocess.run(["git", "-C", W, "diff"], stdout=subprocess.PIPE, text=True).stdout
open(os.path.join(D, "patch.diff"), "w").write(diff)
for f in os.listdir(O):
    if f in ("TASK.txt",) or f.startswith("jrsonnet") or f.endswith(".log") or (os.path.isdir(os.path.join(O, f)) and f == "base"):
        continue
    if f == "patch.diff":
        continue
    if os.path.isdir(os.path.join(O, f)):
        shutil.copytree(os.path.join(O, f), os.path.join(D, f), dirs_exist_ok=True)
    else:
        shutil.copy(os.path.join(O, f), os.path.join(D, f))
meta = {}
mp = os.path.join(O, "meta.json")
if os.path.exists(mp):
    try:
        meta = json.load(open(mp))
    except Exception:
        meta = {"raw": open(mp).read()}
base = subprocess.run(["git", "-C", W, "rev-parse", "HEAD"], stdout=subprocess.PIPE, text=True).stdout.strip()
meta.update({"base_commit": base, "confirmed_by_lead": extra})
json.dump(meta, open(os.path.join(D, "meta.json"), "w"), indent=1, ensure_ascii=False)
print("stored", D, os.listdir(D))
