/* C driver for libjsonnet.so (property C15): a line protocol over the C API.
 *
 *   ext_var N V | ext_code N V | tla_var N V | tla_code N V | jpath P | max_stack n |
 *   string_output 0|1 | reset |
 *   snippet F C | file P | snippet_multi F C | file_multi P | snippet_stream F C | file_stream P
 *
 * every textual argument is hex-encoded.  Evaluations answer `R <error> <hex>`; for the
 * multi/stream calls the hex covers the buffer up to and including the terminating double NUL.
 */
#include <stdio.h>
#include <stdlib.h>
#include <string.h>

struct JsonnetVm;
struct JsonnetVm *jsonnet_make(void);
void jsonnet_destroy(struct JsonnetVm *vm);
void jsonnet_max_stack(struct JsonnetVm *vm, unsigned v);
void jsonnet_string_output(struct JsonnetVm *vm, int v);
void jsonnet_ext_var(struct JsonnetVm *vm, const char *key, const char *val);
void jsonnet_ext_code(struct JsonnetVm *vm, const char *key, const char *val);
void jsonnet_tla_var(struct JsonnetVm *vm, const char *key, const char *val);
void jsonnet_tla_code(struct JsonnetVm *vm, const char *key, const char *val);
void jsonnet_jpath_add(struct JsonnetVm *vm, const char *v);
char *jsonnet_evaluate_file(struct JsonnetVm *vm, const char *filename, int *error);
char *jsonnet_evaluate_snippet(struct JsonnetVm *vm, const char *filename, const char *snippet, int *error);
char *jsonnet_evaluate_file_multi(struct JsonnetVm *vm, const char *filename, int *error);
char *jsonnet_evaluate_snippet_multi(struct JsonnetVm *vm, const char *filename, const char *snippet, int *error);
char *jsonnet_evaluate_file_stream(struct JsonnetVm *vm, const char *filename, int *error);
char *jsonnet_evaluate_snippet_stream(struct JsonnetVm *vm, const char *filename, const char *snippet, int *error);

/* libjsonnet's default `interop-wasm` feature expects the host to provide these two symbols
 * (statically registered callbacks); this driver never registers any. */
int _jrsonnet_static_import_callback(void *ctx, const char *base, const char *rel, const char **found_here,
                                     char **buf, size_t *buflen) {
	(void)ctx; (void)base; (void)rel; (void)found_here; (void)buf; (void)buflen;
	return 1;
}
void *_jrsonnet_static_native_callback(const void *ctx, const void *const *argv, int *success) {
	(void)ctx; (void)argv;
	*success = 0;
	return NULL;
}

static char *unhex(const char *h) {
	size_t n = strlen(h) / 2;
	char *out = malloc(n + 1);
	for (size_t i = 0; i < n; i++) {
		unsigned v;
		sscanf(h + 2 * i, "%2x", &v);
		out[i] = (char)v;
	}
	out[n] = 0;
	return out;
}

static void answer(int error, const char *buf, int framed) {
	size_t n;
	if (!framed || error) {
		n = strlen(buf);
	} else {
		/* up to and including the double NUL */
		const char *c = buf;
		while (*c) {
			c += strlen(c) + 1;
		}
		n = (size_t)(c - buf) + 1;
		if (n == 1) n = 2; /* empty: "\0\0" */
	}
	printf("R %d ", error);
	for (size_t i = 0; i < n; i++) printf("%02x", (unsigned char)buf[i]);
	printf("\n");
	fflush(stdout);
}

int main(void) {
	static char line[1 << 22];
	struct JsonnetVm *vm = jsonnet_make();
	while (fgets(line, sizeof line, stdin)) {
		char *cmd = strtok(line, " \n");
		if (!cmd) continue;
		char *a = strtok(NULL, " \n");
		char *b = strtok(NULL, " \n");
		char *x = a ? unhex(a) : NULL;
		char *y = b ? unhex(b) : NULL;
		int error = 0;
		if (!strcmp(cmd, "reset")) {
			jsonnet_destroy(vm);
			vm = jsonnet_make();
		} else if (!strcmp(cmd, "ext_var")) jsonnet_ext_var(vm, x, y ? y : "");
		else if (!strcmp(cmd, "ext_code")) jsonnet_ext_code(vm, x, y ? y : "");
		else if (!strcmp(cmd, "tla_var")) jsonnet_tla_var(vm, x, y ? y : "");
		else if (!strcmp(cmd, "tla_code")) jsonnet_tla_code(vm, x, y ? y : "");
		else if (!strcmp(cmd, "jpath")) jsonnet_jpath_add(vm, x);
		else if (!strcmp(cmd, "max_stack")) jsonnet_max_stack(vm, (unsigned)atoi(a));
		else if (!strcmp(cmd, "string_output")) jsonnet_string_output(vm, atoi(a));
		else if (!strcmp(cmd, "snippet")) {
			char *r = jsonnet_evaluate_snippet(vm, x, y ? y : "", &error);
			answer(error, r, 0);
		} else if (!strcmp(cmd, "file")) {
			char *r = jsonnet_evaluate_file(vm, x, &error);
			answer(error, r, 0);
		}
		else if (!strcmp(cmd, "snippet_multi") || !strcmp(cmd, "snippet_stream") || !strcmp(cmd, "file_multi") ||
		         !strcmp(cmd, "file_stream")) {
			char *r;
			if (!strcmp(cmd, "snippet_multi")) r = jsonnet_evaluate_snippet_multi(vm, x, y ? y : "", &error);
			else if (!strcmp(cmd, "snippet_stream")) r = jsonnet_evaluate_snippet_stream(vm, x, y ? y : "", &error);
			else if (!strcmp(cmd, "file_multi")) r = jsonnet_evaluate_file_multi(vm, x, &error);
			else r = jsonnet_evaluate_file_stream(vm, x, &error);
			answer(error, r, 1);
		} else {
			printf("E unknown %s\n", cmd);
			fflush(stdout);
		}
		free(x);
		free(y);
	}
	return 0;
}
