use std::cell::RefCell;

use jrsonnet_evaluator::{error::Error, Result, Val};
use serde_json::{json, Value};

thread_local! {
	pub static LAST_PANIC: RefCell<Option<String>> = const { RefCell::new(None) };
}

/// Canonical tree of a value: numbers as IEEE bit patterns, object fields in the order the
/// code itself lists them (visible only), strings as JSON strings.
pub fn canon(v: &Val) -> Result<Value> {
	Ok(match v {
		Val::Null => Value::Null,
		Val::Bool(b) => Value::Bool(*b),
		Val::Str(s) => Value::String(s.clone().into_flat().to_string()),
		Val::Num(n) => json!({"#": n.get().to_bits().to_string()}),
		Val::Arr(a) => {
			let mut out = Vec::with_capacity(a.len());
			for e in a.iter() {
				out.push(canon(&e?)?);
			}
			Value::Array(out)
		}
		Val::Obj(o) => {
			o.run_assertions()?;
			let mut out = Vec::new();
			for k in o.fields() {
				let fv = o.get(k.clone())?.expect("listed field exists");
				out.push(json!([k.to_string(), canon(&fv)?]));
			}
			json!({"o": out})
		}
		Val::Func(f) => json!({"f": f.params_len()}),
	})
}

/// Variant name of the error kind (`RuntimeError`, `StackOverflow`, ...) plus message.
pub fn err_json(e: &Error) -> Value {
	let dbg = format!("{:?}", e.error());
	let name: String = dbg
		.chars()
		.take_while(|c| c.is_alphanumeric() || *c == '_')
		.collect();
	json!({"err": name, "msg": format!("{}", e.error())})
}
