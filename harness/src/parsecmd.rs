//! `parse` (C06): run the three bundled parsers on the same source text.
//!
//! request  {"src": str}  or  {"srcs": [str, ...]}
//! answer   {"ir": R, "peg": R, "rowan": W}            (a list of such objects for "srcs")
//!   R = {"ok": tree} | {"err": message} | {"panic": text}
//!   W = {"errors": n} | {"panic": text}
//!   plus "lex_error": bool -- jrsonnet-lexer produced an error token for the text
//! `tree` is the jrsonnet_ir::Expr with every source position erased, as nested JSON arrays
//! (written by an exhaustive visitor: a new Expr variant is a compile error, not a silent gap).
use std::panic::{catch_unwind, AssertUnwindSafe};

use jrsonnet_ir::{
	ArgsDesc, AssertStmt, BindSpec, CompSpec, Destruct, Expr, ExprParams, FieldMember, FieldName,
	ImportKind, LiteralType, ObjBody, SliceDesc, Source, Visibility,
};
use serde_json::{json, Value};

use crate::util::LAST_PANIC;

fn destruct(d: &Destruct) -> Value {
	match d {
		Destruct::Full(n) => json!(["id", n.to_string()]),
		#[allow(unreachable_patterns)]
		_ => json!(["destruct-ext"]),
	}
}

fn params(p: &ExprParams) -> Value {
	Value::Array(
		p.exprs
			.iter()
			.map(|p| {
				json!([
					destruct(&p.destruct),
					p.default.as_ref().map(|e| expr(e)).unwrap_or(Value::Null)
				])
			})
			.collect(),
	)
}

fn args(a: &ArgsDesc) -> Value {
	json!([
		a.unnamed.iter().map(|e| expr(e)).collect::<Vec<_>>(),
		a.named
			.iter()
			.map(|(n, e)| json!([n.to_string(), expr(e)]))
			.collect::<Vec<_>>()
	])
}

fn bind(b: &BindSpec) -> Value {
	match b {
		BindSpec::Field { into, value } => json!(["bind", destruct(into), expr(value)]),
		BindSpec::Function {
			name,
			params: p,
			value,
		} => json!(["bindfn", name.to_string(), params(p), expr(value)]),
	}
}

fn assert_stmt(a: &AssertStmt) -> Value {
	json!([
		"assert",
		expr(&a.0.value),
		a.1.as_ref().map(|e| expr(&e.value)).unwrap_or(Value::Null)
	])
}

fn field(f: &FieldMember) -> Value {
	let name = match &f.name.value {
		FieldName::Fixed(s) => json!(["fixed", s.to_string()]),
		FieldName::Dyn(e) => json!(["dyn", expr(e)]),
	};
	let vis = match f.visibility {
		Visibility::Normal => ":",
		Visibility::Hidden => "::",
		Visibility::Unhide => ":::",
	};
	json!([
		"field",
		name,
		f.plus,
		f.params.as_ref().map(params).unwrap_or(Value::Null),
		vis,
		expr(&f.value)
	])
}

fn compspecs(cs: &[CompSpec]) -> Value {
	Value::Array(
		cs.iter()
			.map(|c| match c {
				CompSpec::IfSpec(i) => json!(["if", expr(&i.cond)]),
				CompSpec::ForSpec(f) => json!(["for", destruct(&f.destruct), expr(&f.over)]),
			})
			.collect(),
	)
}

fn objbody(b: &ObjBody) -> Value {
	match b {
		ObjBody::MemberList(m) => json!([
			"members",
			m.locals.iter().map(bind).collect::<Vec<_>>(),
			m.asserts.iter().map(assert_stmt).collect::<Vec<_>>(),
			m.fields.iter().map(field).collect::<Vec<_>>()
		]),
		ObjBody::ObjComp(c) => json!([
			"objcomp",
			c.locals.iter().map(bind).collect::<Vec<_>>(),
			field(&c.field),
			compspecs(&c.compspecs)
		]),
	}
}

fn slice(s: &SliceDesc) -> Value {
	let f = |o: &Option<jrsonnet_ir::Spanned<Expr>>| {
		o.as_ref().map(|e| expr(&e.value)).unwrap_or(Value::Null)
	};
	json!([f(&s.start), f(&s.end), f(&s.step)])
}

pub fn expr(e: &Expr) -> Value {
	match e {
		Expr::Literal(l) => json!([
			"l",
			match l {
				LiteralType::This => "self",
				LiteralType::Super => "super",
				LiteralType::Dollar => "$",
				LiteralType::Null => "null",
				LiteralType::True => "true",
				LiteralType::False => "false",
			}
		]),
		Expr::Str(s) => json!(["s", s.to_string()]),
		Expr::Num(n) => json!(["n", n.to_bits().to_string()]),
		Expr::Var(n) => json!(["v", n.value.to_string()]),
		Expr::Arr(xs) => json!(["arr", xs.iter().map(expr).collect::<Vec<_>>()]),
		Expr::ArrComp(x, cs) => json!(["arrcomp", expr(x), compspecs(cs)]),
		Expr::Obj(b) => json!(["obj", objbody(b)]),
		Expr::ObjExtend(x, b) => json!(["objext", expr(x), objbody(b)]),
		Expr::UnaryOp(op, x) => json!(["u", op.to_string(), expr(x)]),
		Expr::BinaryOp(b) => json!(["b", b.op.to_string(), expr(&b.lhs), expr(&b.rhs)]),
		Expr::AssertExpr(a) => json!(["assertexpr", assert_stmt(&a.assert), expr(&a.rest)]),
		Expr::LocalExpr(bs, x) => {
			json!(["local", bs.iter().map(bind).collect::<Vec<_>>(), expr(x)])
		}
		Expr::Import(k, x) => json!([
			"import",
			match k.value {
				ImportKind::Normal => "import",
				ImportKind::Str => "importstr",
				ImportKind::Bin => "importbin",
			},
			expr(x)
		]),
		Expr::ErrorStmt(_, x) => json!(["error", expr(x)]),
		Expr::Apply(f, a, ts) => json!(["apply", expr(f), args(&a.value), ts]),
		Expr::Index { indexable, parts } => json!([
			"index",
			expr(indexable),
			parts.iter().map(|p| expr(&p.value)).collect::<Vec<_>>()
		]),
		Expr::Function(p, x) => json!(["function", params(p), expr(x)]),
		Expr::IfElse(i) => json!([
			"ifelse",
			expr(&i.cond.cond),
			expr(&i.cond_then),
			i.cond_else.as_ref().map(expr).unwrap_or(Value::Null)
		]),
		Expr::Slice(s) => json!(["slice", expr(&s.value), slice(&s.slice)]),
	}
}

fn guarded(f: impl FnOnce() -> Value) -> Value {
	match catch_unwind(AssertUnwindSafe(f)) {
		Ok(v) => v,
		Err(_) => {
			let m = LAST_PANIC
				.with(|p| p.borrow_mut().take())
				.unwrap_or_default();
			json!({ "panic": m })
		}
	}
}

fn one(src: &str) -> Value {
	let ir = guarded(|| {
		let source = Source::new_virtual("<c06>".into(), src.into());
		match jrsonnet_ir_parser::parse(src, &jrsonnet_ir_parser::ParserSettings { source }) {
			Ok(e) => json!({"ok": expr(&e)}),
			Err(e) => json!({"err": e.to_string()}),
		}
	});
	let peg = guarded(|| {
		let source = Source::new_virtual("<c06>".into(), src.into());
		match jrsonnet_peg_parser::parse(src, &jrsonnet_peg_parser::ParserSettings { source }) {
			Ok(e) => json!({"ok": expr(&e)}),
			Err(e) => json!({"err": e.to_string()}),
		}
	});
	let rowan = guarded(|| {
		let (_file, errors) = jrsonnet_rowan_parser::parse(src);
		json!({"errors": errors.len()})
	});
	// does the shared lexer flag the text (what ir-parser checks before parsing)?
	let lex_error = guarded(|| {
		Value::Bool(
			jrsonnet_lexer::Lexer::new(src).any(|l| l.kind.error_description().is_some()),
		)
	});
	json!({"ir": ir, "peg": peg, "rowan": rowan, "lex_error": lex_error})
}

pub fn handle(req: &Value) -> Value {
	if let Some(list) = req.get("srcs").and_then(Value::as_array) {
		return Value::Array(
			list.iter()
				.map(|s| one(s.as_str().unwrap_or("")))
				.collect(),
		);
	}
	one(req.get("src").and_then(Value::as_str).unwrap_or(""))
}
