//! `fmt` (C19, C20): run jrsonnet_formatter::format on a source text, for several indent
//! settings, every call under catch_unwind, and report what is needed to judge the output.
//!
//! request  {"src": str, "indents": [0,2,4]?, "lists": bool?, "tree": bool?}
//! answer   {"lex": L, "tree": R?, "rowan": W, "fmt": {"<indent>": F, ...}, "lists": [...]?}
//!   L = {"tokens": [[kind, text]..] (non-trivia), "comments": [[kind, text]..],
//!        "error": bool} | {"panic": text}
//!   R = {"ok": span-erased ir Expr} | {"err": msg} | {"panic": text}     (parsecmd::expr)
//!   W = {"errors": n} | {"panic": text}
//!   F = {"diag": n_chars_of_rendered_diagnostic} | {"panic": text}
//!     | {"ok": y, "lex": L(y), "tree": R(y), "again": {"same": bool, "text": y2?} | {"diag":..} | {"panic":..}}
//!   lists = for every list-like rowan node (array, object member list, args, local, ...) the
//!           sequence of its direct children: ["n", kind] | ["t", kind, text] (trivia) |
//!           ["k", kind, text] (other token) | ["e", text] (error node)
use std::panic::{catch_unwind, AssertUnwindSafe};

use jrsonnet_formatter::{format, FormatOptions};
use jrsonnet_ir::Source;
use jrsonnet_lexer::{Lexer, SyntaxKind};
use jrsonnet_rowan_parser::{nodes::Trivia, AstNode, AstToken};
use serde_json::{json, Map, Value};

use crate::{parsecmd, util::LAST_PANIC};

fn guarded(f: impl FnOnce() -> Value) -> Value {
	match catch_unwind(AssertUnwindSafe(f)) {
		Ok(v) => v,
		Err(_) => {
			let m = LAST_PANIC
				.with(|p| p.borrow_mut().take())
				.unwrap_or_default();
			json!({ "panic": m })
		}
	}
}

fn is_trivia(k: SyntaxKind) -> bool {
	matches!(
		k,
		SyntaxKind::WHITESPACE
			| SyntaxKind::SINGLE_LINE_SLASH_COMMENT
			| SyntaxKind::SINGLE_LINE_HASH_COMMENT
			| SyntaxKind::MULTI_LINE_COMMENT
	)
}

fn lex(src: &str) -> Value {
	guarded(|| {
		let mut tokens = Vec::new();
		let mut comments = Vec::new();
		let mut error = false;
		for l in Lexer::new(src) {
			if l.kind.error_description().is_some() {
				error = true;
			}
			if l.kind == SyntaxKind::WHITESPACE {
				continue;
			}
			let item = json!([format!("{:?}", l.kind), l.text]);
			if is_trivia(l.kind) {
				comments.push(item);
			} else {
				tokens.push(item);
			}
		}
		json!({"tokens": tokens, "comments": comments, "error": error})
	})
}

fn tree(src: &str) -> Value {
	guarded(|| {
		let source = Source::new_virtual("<c19>".into(), src.into());
		match jrsonnet_ir_parser::parse(src, &jrsonnet_ir_parser::ParserSettings { source }) {
			Ok(e) => json!({"ok": parsecmd::expr(&e)}),
			Err(e) => json!({"err": e.to_string()}),
		}
	})
}

fn fmt_once(src: &str, indent: u8) -> Result<String, Value> {
	let r = catch_unwind(AssertUnwindSafe(|| {
		match format(src, &FormatOptions { indent }) {
			Ok(s) => Ok(s),
			Err(b) => {
				// the diagnostic the command line tool would print: building and rendering
				// it must not panic either
				let snippet = b.build();
				let ansi = hi_doc::source_to_ansi(&snippet);
				Err(json!({"diag": ansi.chars().count()}))
			}
		}
	}));
	match r {
		Ok(v) => v,
		Err(_) => {
			let m = LAST_PANIC
				.with(|p| p.borrow_mut().take())
				.unwrap_or_default();
			Err(json!({ "panic": m }))
		}
	}
}

fn lists(src: &str) -> Value {
	guarded(|| {
		let (file, errors) = jrsonnet_rowan_parser::parse(src);
		if !errors.is_empty() {
			return Value::Null;
		}
		let mut out = Vec::new();
		for node in file.syntax().descendants() {
			let kind = format!("{:?}", node.kind());
			let mut items = Vec::new();
			for ch in node.children_with_tokens() {
				if let Some(t) = ch.as_token() {
					if Trivia::can_cast(t.kind()) {
						items.push(json!(["t", format!("{:?}", t.kind()), t.text()]));
					} else {
						items.push(json!(["k", format!("{:?}", t.kind()), t.text()]));
					}
				} else if let Some(n) = ch.as_node() {
					items.push(json!(["n", format!("{:?}", n.kind()), n.text().to_string()]));
				}
			}
			out.push(json!({"kind": kind, "items": items}));
		}
		Value::Array(out)
	})
}

pub fn handle(req: &Value) -> Value {
	let src = req.get("src").and_then(Value::as_str).unwrap_or("");
	let indents: Vec<u8> = req
		.get("indents")
		.and_then(Value::as_array)
		.map(|a| a.iter().filter_map(|v| v.as_u64()).map(|v| v as u8).collect())
		.unwrap_or_else(|| vec![0, 2, 4]);
	let want_tree = req.get("tree").and_then(Value::as_bool).unwrap_or(true);
	let full = req.get("full").and_then(Value::as_bool).unwrap_or(true);
	let mut res = Map::new();
	if full {
		res.insert("lex".into(), lex(src));
	}
	if want_tree {
		res.insert("tree".into(), tree(src));
	}
	res.insert(
		"rowan".into(),
		guarded(|| {
			let (_f, errors) = jrsonnet_rowan_parser::parse(src);
			json!({"errors": errors.len()})
		}),
	);
	let mut fm = Map::new();
	for ind in indents {
		let f = match fmt_once(src, ind) {
			Err(v) => v,
			Ok(y) => {
				let again = match fmt_once(&y, ind) {
					Err(v) => v,
					Ok(y2) => {
						if y2 == y {
							json!({"same": true})
						} else {
							json!({"same": false, "text": y2})
						}
					}
				};
				let mut m = Map::new();
				if full {
					m.insert("lex".into(), lex(&y));
				}
				if want_tree {
					m.insert("tree".into(), tree(&y));
				}
				m.insert("again".into(), again);
				m.insert("ok".into(), Value::String(y));
				Value::Object(m)
			}
		};
		fm.insert(ind.to_string(), f);
	}
	res.insert("fmt".into(), Value::Object(fm));
	if req.get("lists").and_then(Value::as_bool).unwrap_or(false) {
		res.insert("lists".into(), lists(src));
	}
	Value::Object(res)
}
