//! `c14`: evaluate one snippet ONCE and push the value through the Rust-API / command-line
//! manifestation formats of C14 (the std.manifest* builtins are reached through `eval`).
//!
//! request  {"code": str, "fmts": [name, ...]}
//!   name = "cli <args...>"        ManifestOpts::parse_from(["jrsonnet", args...]).manifest_format()
//!                                 (the real clap mapping of crates/jrsonnet-cli/src/manifest.rs)
//!        | "yamlcli:<pad>"        YamlFormat::cli(pad)
//!        | "yaml:<iao>:<qk>"      YamlFormat::std_to_yaml(iao, qk)            (iao, qk in 0|1)
//!        | "tomlcli:<pad>" | "toml:<indent text>"
//!        | "xml" | "xmlcli" | "ini" | "inicli" | "python" | "pythonvars"
//! answer   {"canon": {"ok": tree}|{"err":..}, "outs": [{"ok": text}|{"err":..,"msg":..}|{"panic":..}, ...]}
use std::panic::{catch_unwind, AssertUnwindSafe};

use clap::Parser;
use jrsonnet_cli::ManifestOpts;
use jrsonnet_evaluator::{manifest::ManifestFormat, trace::PathResolver, Result, State, Val};
use jrsonnet_stdlib::{
	ContextInitializer, IniFormat, PythonFormat, PythonVarsFormat, TomlFormat, XmlJsonmlFormat,
	YamlFormat,
};
use serde_json::{json, Value};

use crate::util::{canon, err_json, LAST_PANIC};

#[derive(Parser)]
struct Wrap {
	#[clap(flatten)]
	m: ManifestOpts,
}

fn one_out(val: &Val, name: &str) -> Result<String> {
	let v = val.clone();
	if let Some(args) = name.strip_prefix("cli ") {
		let mut argv = vec!["jrsonnet".to_owned()];
		argv.extend(args.split(' ').filter(|a| !a.is_empty()).map(str::to_owned));
		return match Wrap::try_parse_from(argv) {
			Ok(w) => w.m.manifest_format().manifest(v),
			Err(e) => Ok(format!("<<clap error: {e}>>")),
		};
	}
	let (head, rest) = name.split_once(':').unwrap_or((name, ""));
	let flag = |i: usize| rest.split(':').nth(i).is_some_and(|x| x == "1");
	match head {
		"yamlcli" => YamlFormat::cli(rest.parse().unwrap_or(2)).manifest(v),
		"yaml" => YamlFormat::std_to_yaml(flag(0), flag(1)).manifest(v),
		"tomlcli" => TomlFormat::cli(rest.parse().unwrap_or(2)).manifest(v),
		"toml" => TomlFormat::std_to_toml(rest.to_owned()).manifest(v),
		"xml" => XmlJsonmlFormat::std_to_xml().manifest(v),
		"xmlcli" => XmlJsonmlFormat::cli().manifest(v),
		"ini" => IniFormat::std().manifest(v),
		"inicli" => IniFormat::cli().manifest(v),
		"python" => PythonFormat::std().manifest(v),
		"pythonvars" => PythonVarsFormat::std().manifest(v),
		_ => Ok(format!("<<unknown format {name}>>")),
	}
}

fn guarded(f: impl FnOnce() -> Result<Value>) -> Value {
	match catch_unwind(AssertUnwindSafe(f)) {
		Ok(Ok(v)) => json!({ "ok": v }),
		Ok(Err(e)) => err_json(&e),
		Err(_) => json!({"panic": LAST_PANIC.with(|p| p.borrow_mut().take()).unwrap_or_default()}),
	}
}

pub fn handle(req: &Value) -> Value {
	let code = req["code"].as_str().unwrap_or("").to_owned();
	let std_ctx = ContextInitializer::new(PathResolver::new_cwd_fallback());
	let mut sb = State::builder();
	sb.context_initializer(std_ctx);
	let s = sb.build();
	let _g = s.enter();

	let mut outs = Vec::new();
	let canon_res;
	match catch_unwind(AssertUnwindSafe(|| s.evaluate_snippet("<cmdline>".to_owned(), code.as_str()))) {
		Ok(Ok(val)) => {
			canon_res = guarded(|| canon(&val));
			if let Some(Value::Array(names)) = req.get("fmts") {
				for n in names {
					let n = n.as_str().unwrap_or("");
					outs.push(guarded(|| one_out(&val, n).map(Value::String)));
				}
			}
		}
		Ok(Err(e)) => canon_res = err_json(&e),
		Err(_) => {
			canon_res =
				json!({"panic": LAST_PANIC.with(|p| p.borrow_mut().take()).unwrap_or_default()});
		}
	}
	json!({"canon": canon_res, "outs": outs})
}
