//! jrharness: correspondence harness for /verif.
//!
//! Line protocol: each stdin line is one JSON request, each stdout line is the JSON answer
//! for the request on the same line number.  Every request runs in its own worker thread
//! (large native stack) under `catch_unwind`, so a panic is an *outcome* (`{"panic": ...}`),
//! never a lost shard.
use std::{
	io::{BufRead, Write},
	panic::{catch_unwind, AssertUnwindSafe},
};

use serde_json::{json, Value};

mod arrprobe;
mod c17cmd;
mod c14cmd;
mod evalcmd;
mod fmtcmd;
mod parsecmd;
mod manifestcmd;
mod numop;
mod imports;
mod gccmd;
mod interncmd;
mod lazycmd;
mod util;

type Handler = fn(&Value) -> Value;

fn run_lines(h: Handler) {
	std::panic::set_hook(Box::new(|info| {
		let loc = info
			.location()
			.map(|l| format!("{}:{}", l.file(), l.line()))
			.unwrap_or_default();
		let msg = if let Some(s) = info.payload().downcast_ref::<&str>() {
			(*s).to_owned()
		} else if let Some(s) = info.payload().downcast_ref::<String>() {
			s.clone()
		} else {
			"<non-string panic>".to_owned()
		};
		util::LAST_PANIC.with(|p| *p.borrow_mut() = Some(format!("{loc}: {msg}")));
	}));
	let stdin = std::io::stdin();
	let stdout = std::io::stdout();
	let mut out = stdout.lock();
	for line in stdin.lock().lines() {
		let line = line.expect("stdin");
		if line.trim().is_empty() {
			continue;
		}
		let req: Value = match serde_json::from_str(&line) {
			Ok(v) => v,
			Err(e) => {
				writeln!(out, "{}", json!({"harness_error": format!("bad request: {e}")}))
					.unwrap();
				continue;
			}
		};
		let res = std::thread::Builder::new()
			.stack_size(512 * 1024 * 1024)
			.spawn(move || {
				let r = catch_unwind(AssertUnwindSafe(|| h(&req)));
				match r {
					Ok(v) => v,
					Err(_) => {
						let m = util::LAST_PANIC
							.with(|p| p.borrow_mut().take())
							.unwrap_or_default();
						json!({"panic": m})
					}
				}
			})
			.expect("spawn")
			.join()
			.unwrap_or_else(|_| json!({"panic": "worker thread died"}));
		writeln!(out, "{res}").unwrap();
		out.flush().unwrap();
	}
}

fn main() {
	let args: Vec<String> = std::env::args().collect();
	let sub = args.get(1).map(String::as_str).unwrap_or("");
	match sub {
		"eval" => run_lines(evalcmd::handle),
		"parse" => run_lines(parsecmd::handle),
		"fmt" => run_lines(fmtcmd::handle),
		"manifest" => run_lines(manifestcmd::handle),
		"numop" => run_lines(numop::handle),
		"imports" => run_lines(imports::handle),
		"intern" => run_lines(interncmd::handle),
		"gc" => run_lines(gccmd::handle),
		"lex" => run_lines(c17cmd::lex),
		"rowan" => run_lines(c17cmd::rowan),
		"spans" => run_lines(c17cmd::spans),
		"loc" => run_lines(c17cmd::loc),
		"textall" => run_lines(c17cmd::textall),
		"errjs" => run_lines(c17cmd::errjs),
		"lazy" => run_lines(lazycmd::handle),
		"c14" => run_lines(c14cmd::handle),
		"version" => println!("jrharness 1"),
		_ => {
			eprintln!("usage: jrharness <eval|...>");
			std::process::exit(2);
		}
	}
}
