//! `eval`: evaluate a snippet through the public library API and report a canonical outcome.
//!
//! request  {"code": str, "out"?: "canon"|"minify"|"cli:<n>"|"default"|"tostring"|"string"|"none",
//!           "name"?: str, "embed"?: "snippet"|"import"|"ext"|"tla",
//!           "ext_str"?: {..}, "ext_code"?: {..}, "tla_str"?: {..}, "tla_code"?: {..},
//!           "files"?: {name: text}, "max_stack"?: n, "trace"?: bool, "errtext"?: bool,
//!           "seq"?: [request, ...], "codes"?: [snippet, ...] (one State for all of them)}
//! answer   {"ok": <canon tree or text>} | {"err": kind, "msg": text} | {"panic": text}
//!          plus "traces": [labels] when asked, "errtext": formatted trace when asked.
use std::{
	any::Any,
	cell::RefCell,
	collections::HashMap,
	fmt::{self, Debug, Display},
	hash::{Hash, Hasher},
	path::Path,
	rc::Rc,
};

use jrsonnet_evaluator::{
	apply_tla,
	error::ErrorKind,
	function::CallLocation,
	manifest::{JsonFormat, ManifestFormat, StringFormat, ToStringFormat},
	stack::limit_stack_depth,
	tla::TlaArg,
	trace::{CompactFormat, PathResolver, TraceFormat},
	AsPathLike, IStr, ImportResolver, Result, State, Val,
};
use jrsonnet_gcmodule::Acyclic;
use jrsonnet_ir::{SourcePath, SourcePathT};
use jrsonnet_stdlib::{ContextInitializer, TracePrinter};
use serde_json::{json, Map, Value};

use crate::util::{canon, err_json};

#[derive(Acyclic, Hash, PartialEq, Eq, Debug, Clone)]
pub struct SourceMem(pub String);
impl Display for SourceMem {
	fn fmt(&self, f: &mut fmt::Formatter<'_>) -> fmt::Result {
		write!(f, "{}", self.0)
	}
}
impl SourcePathT for SourceMem {
	fn is_default(&self) -> bool {
		false
	}
	fn path(&self) -> Option<&Path> {
		None
	}
	fn as_any(&self) -> &dyn Any {
		self
	}
	fn dyn_hash(&self, mut hasher: &mut dyn Hasher) {
		self.hash(&mut hasher);
	}
	fn dyn_eq(&self, other: &dyn SourcePathT) -> bool {
		other
			.as_any()
			.downcast_ref::<Self>()
			.is_some_and(|o| o == self)
	}
	fn dyn_debug(&self, fmt: &mut fmt::Formatter<'_>) -> fmt::Result {
		Debug::fmt(self, fmt)
	}
}

#[derive(Acyclic)]
pub struct MemResolver {
	#[allow(dead_code)]
	files: HashMap<String, Vec<u8>>,
}
impl ImportResolver for MemResolver {
	fn resolve_from(&self, from: &SourcePath, path: &dyn AsPathLike) -> Result<SourcePath> {
		let p = path.as_path();
		let p: &Path = p.as_ref();
		let name = p.to_string_lossy().to_string();
		if self.files.contains_key(&name) {
			Ok(SourcePath::new(SourceMem(name)))
		} else {
			Err(ErrorKind::ImportFileNotFound(from.clone(), path.as_path().to_owned()).into())
		}
	}
	fn load_file_contents(&self, resolved: &SourcePath) -> Result<Vec<u8>> {
		if let Some(f) = resolved.downcast_ref::<jrsonnet_ir::SourceFifo>() {
			return Ok(f.1.to_vec());
		}
		let m = resolved
			.downcast_ref::<SourceMem>()
			.expect("mem resolver path");
		Ok(self.files.get(&m.0).expect("resolved exists").clone())
	}
}

#[derive(Acyclic)]
struct CollectTrace(Rc<RefCell<Vec<String>>>);
impl TracePrinter for CollectTrace {
	fn print_trace(&self, _loc: CallLocation, value: IStr) {
		self.0.borrow_mut().push(value.to_string());
	}
}

fn str_map(v: Option<&Value>) -> Vec<(String, String)> {
	let mut out = Vec::new();
	if let Some(Value::Object(m)) = v {
		for (k, v) in m {
			out.push((k.clone(), v.as_str().unwrap_or("").to_owned()));
		}
	}
	out
}

/// writer description -> the library's ManifestFormat (C15: the CLI's choice is predicted by the
/// model and reproduced here through the public constructors)
fn writer(spec: &str) -> Option<Box<dyn ManifestFormat>> {
	use jrsonnet_evaluator::manifest::YamlStreamFormat;
	use jrsonnet_stdlib::{IniFormat, TomlFormat, XmlJsonmlFormat, YamlFormat};
	if let Some(inner) = spec.strip_prefix("ystream(").and_then(|s| s.strip_suffix(')')) {
		return Some(Box::new(YamlStreamFormat::cli(writer(inner)?)));
	}
	let (name, n) = match spec.split_once(':') {
		Some((a, b)) => (a, b.parse::<usize>().ok()?),
		None => (spec, 0),
	};
	Some(match name {
		"json" => Box::new(JsonFormat::cli(n)),
		"yaml" => Box::new(YamlFormat::cli(n)),
		"toml" => Box::new(TomlFormat::cli(n)),
		"xml" => Box::new(XmlJsonmlFormat::cli()),
		"ini" => Box::new(IniFormat::cli()),
		"string" => Box::new(StringFormat),
		"tostring" => Box::new(ToStringFormat),
		_ => return None,
	})
}

fn manifest_out(val: &Val, out: &str) -> Result<Value> {
	if let Some(w) = out.strip_prefix("writer=") {
		let Some(f) = writer(w) else {
			return Ok(Value::String(format!("unknown writer {w}")));
		};
		return Ok(Value::String(f.manifest(val.clone())?));
	}
	if let Some(w) = out.strip_prefix("multi=") {
		// -m: one manifest per field, in field order
		let Some(f) = writer(w) else {
			return Ok(Value::String(format!("unknown writer {w}")));
		};
		let Val::Obj(obj) = val else {
			return Ok(json!({"notobj": val.value_type().name()}));
		};
		let mut files = Vec::new();
		for k in obj.fields() {
			let v = obj.get(k.clone())?.expect("field exists");
			files.push(json!([k.to_string(), f.manifest(v)?, f.file_trailing_newline()]));
		}
		return Ok(Value::Array(files));
	}
	Ok(match out {
		"canon" => canon(val)?,
		"none" => Value::Null,
		"minify" => Value::String(val.manifest(JsonFormat::minify())?),
		"default" => Value::String(val.manifest(JsonFormat::default())?),
		"tostring" => Value::String(val.manifest(ToStringFormat)?),
		"string" => Value::String(val.manifest(StringFormat)?),
		o if o.starts_with("cli:") => {
			let n: usize = o[4..].parse().unwrap_or(3);
			Value::String(JsonFormat::cli(n).manifest(val.clone())?)
		}
		_ => Value::String(format!("unknown out {out}")),
	})
}

/// Probe an array value through the Rust-level `ArrValue` interface: length, then `get(i)`
/// for every i in 0..len+extra, each under its own catch_unwind.
fn arr_probe(val: &Val, extra: usize) -> Result<Value> {
	let Val::Arr(a) = val else {
		return Ok(json!({"notarr": val.value_type().name()}));
	};
	let len = a.len();
	let mut gets = Vec::new();
	for i in 0..len.saturating_add(extra).min(5000) {
		let r = std::panic::catch_unwind(std::panic::AssertUnwindSafe(|| a.get(i)));
		gets.push(match r {
			Ok(Ok(Some(v))) => match canon(&v) {
				Ok(c) => json!({"v": c}),
				Err(e) => err_json(&e),
			},
			Ok(Ok(None)) => Value::Null,
			Ok(Err(e)) => err_json(&e),
			Err(_) => json!({"panic": crate::util::LAST_PANIC
				.with(|p| p.borrow_mut().take())
				.unwrap_or_default()}),
		});
	}
	Ok(json!({"len": len.to_string(), "get": gets}))
}

fn eval_one(req: &Value) -> Value {
	let code = req["code"].as_str().unwrap_or("").to_owned();
	let out = req["out"].as_str().unwrap_or("canon").to_owned();
	let name = req["name"].as_str().unwrap_or("<cmdline>").to_owned();
	let embed = req["embed"].as_str().unwrap_or("snippet").to_owned();
	let traces = Rc::new(RefCell::new(Vec::new()));

	let _stack = req["max_stack"]
		.as_u64()
		.map(|n| limit_stack_depth(n as usize));

	// strings kept interned for the whole evaluation (C16/C18: results must not depend on the pool)
	let _pre: Vec<IStr> = (0..req["preintern"].as_u64().unwrap_or(0))
		.map(|i| IStr::from(format!("pre{}x{i}", i * 7919 % 1013).as_str()))
		.collect();
	let std_ctx = ContextInitializer::new(PathResolver::new_cwd_fallback());
	if req["trace"].as_bool().unwrap_or(false) {
		std_ctx.settings_mut().trace_printer = Rc::new(CollectTrace(traces.clone()));
	}
	for (k, v) in str_map(req.get("ext_str")) {
		std_ctx.add_ext_str(k.as_str().into(), v.as_str().into());
	}
	for (k, v) in str_map(req.get("ext_code")) {
		std_ctx.add_ext_code(&k, v).expect("ext code");
	}
	let mut files = HashMap::new();
	if let Some(Value::Object(m)) = req.get("files") {
		for (k, v) in m {
			files.insert(k.clone(), v.as_str().unwrap_or("").as_bytes().to_vec());
		}
	}
	if embed == "import" {
		files.insert("__main__.jsonnet".to_owned(), code.as_bytes().to_vec());
	}
	if embed == "ext" {
		std_ctx.add_ext_code("__main__", &code).expect("ext code");
	}
	// file flavours of ext vars (C15): ImportStr / Import of a path, as the CLI builds them
	for (k, v) in str_map(req.get("ext_str_file")) {
		std_ctx
			.settings_mut()
			.ext_vars
			.insert(k.as_str().into(), TlaArg::ImportStr(v));
	}
	for (k, v) in str_map(req.get("ext_code_file")) {
		std_ctx
			.settings_mut()
			.ext_vars
			.insert(k.as_str().into(), TlaArg::Import(v));
	}
	let mut sb = State::builder();
	sb.context_initializer(std_ctx.clone());
	if let Some(Value::Array(jp)) = req.get("jpath") {
		// real file system, library paths already in search order
		let paths = jp
			.iter()
			.map(|p| std::path::PathBuf::from(p.as_str().unwrap_or("")))
			.collect();
		sb.import_resolver(jrsonnet_evaluator::FileImportResolver::new(paths));
	} else {
		sb.import_resolver(MemResolver { files });
	}
	let s = sb.build();
	let _g = s.enter();

	// "codes": several snippets evaluated in order on this ONE State (its import cache and the
	// objects held by it survive from one snippet to the next); C16 shared-state histories
	if let Some(Value::Array(codes)) = req.get("codes") {
		let mut outs = Vec::new();
		for c in codes {
			let c = c.as_str().unwrap_or("").to_owned();
			let r = (|| -> Result<Value> {
				let v = s.evaluate_snippet(name.clone(), c.as_str())?;
				manifest_out(&v, &out)
			})();
			outs.push(match r {
				Ok(v) => json!({ "ok": v }),
				Err(e) => err_json(&e),
			});
		}
		return json!({ "multi": outs });
	}

	let run = || -> Result<Value> {
		let val = match embed.as_str() {
			"entry_file" => s.import_from(
				&SourcePath::new(jrsonnet_ir::SourceDefaultIgnoreJpath),
				code.as_str(),
			)?,
			"import" => s.import("__main__.jsonnet")?,
			"ext" => s.evaluate_snippet(name.clone(), "std.extVar('__main__')")?,
			_ => s.evaluate_snippet(name.clone(), code.as_str())?,
		};
		let mut tla: HashMap<IStr, TlaArg> = HashMap::new();
		for (k, v) in str_map(req.get("tla_str")) {
			tla.insert(k.as_str().into(), TlaArg::String(v.as_str().into()));
		}
		for (k, v) in str_map(req.get("tla_code")) {
			tla.insert(k.as_str().into(), TlaArg::InlineCode(v));
		}
		for (k, v) in str_map(req.get("tla_str_file")) {
			tla.insert(k.as_str().into(), TlaArg::ImportStr(v));
		}
		for (k, v) in str_map(req.get("tla_code_file")) {
			tla.insert(k.as_str().into(), TlaArg::Import(v));
		}
		let val = if req.get("tla_str").is_some()
			|| req.get("tla_code").is_some()
			|| req.get("tla_str_file").is_some()
			|| req.get("tla_code_file").is_some()
		{
			apply_tla(&tla, val)?
		} else {
			val
		};
		if let Some(idx) = req["arrprobe_at"].as_array() {
			return Ok(crate::arrprobe::probe_at(&val, idx));
		}
		if let Some(extra) = req["arrprobe"].as_u64() {
			return arr_probe(&val, extra as usize);
		}
		manifest_out(&val, &out)
	};
	let mut res = Map::new();
	match run() {
		Ok(v) => {
			res.insert("ok".into(), v);
		}
		Err(e) => {
			if let Value::Object(m) = err_json(&e) {
				res.extend(m);
			}
			if req["errtext"].as_bool().unwrap_or(false) {
				let f = CompactFormat::default();
				res.insert(
					"errtext".into(),
					Value::String(f.format(&e).unwrap_or_default()),
				);
			}
		}
	}
	if req["trace"].as_bool().unwrap_or(false) {
		res.insert("traces".into(), json!(*traces.borrow()));
	}
	Value::Object(res)
}

pub fn handle(req: &Value) -> Value {
	if let Some(Value::Array(seq)) = req.get("seq") {
		// History mode: all requests on this one thread, each under its own catch_unwind.
		let mut outs = Vec::new();
		for r in seq {
			let r = r.clone();
			let o = std::panic::catch_unwind(std::panic::AssertUnwindSafe(|| eval_one(&r)));
			outs.push(match o {
				Ok(v) => v,
				Err(_) => {
					let m = crate::util::LAST_PANIC
						.with(|p| p.borrow_mut().take())
						.unwrap_or_default();
					json!({"panic": m})
				}
			});
		}
		return json!({"seq": outs});
	}
	eval_one(req)
}
