//! `intern`: interpret an operation history on real `IStr` / `IBytes` handles (C18).
//!
//! request  {"ops": [[code, arg...], ...]}
//!            [0, b...] intern_bytes(b)      -> new slot
//!            [1, b...] intern_str(b)        -> new slot (no-op when b is not UTF-8)
//!            [2, i]    slots[i].clone()     -> new slot
//!            [3, i]    drop(slots[i])
//!            [4, i]    IStr::cast_bytes     in place
//!            [5, i]    IBytes::cast_str     in place (None consumes the handle)
//!            [6]       interop::exit_thread on this thread, reenter_thread on a NEW thread,
//!                      which takes over all handles and runs the rest of the history
//!            [7]       exit_thread           (pool state parked; only for the split hand-over probe)
//!            [8]       reenter_thread        of the parked state on the same thread
//! answer   {"steps": [{"pool": n, "slots": [null | [kind, rc, [bytes]]], "eq": "0101..",
//!                      "ok": bool}, ...], "final_pool": n}
//!          `eq` lists, for all pairs i<j of live slots, whether the two handles are equal
//!          (`==` for handles of one type, data pointer equality across types); `ok` is false
//!          when `==`, `Hash` and `Ord` of same-type handles disagree with each other.
use std::{
	collections::hash_map::DefaultHasher,
	hash::{Hash, Hasher},
	panic::{catch_unwind, AssertUnwindSafe},
};

use jrsonnet_interner::{intern_bytes, intern_str, interop, verif_pool_len, verif_strong_count, IBytes, IStr};
use serde_json::{json, Value};

enum H {
	S(IStr),
	B(IBytes),
}

struct Mv<T>(T);
// SAFETY: the payload is handed over to exactly one other thread together with the pool that
// owns the allocations, and the sending thread never touches it again (that is the protocol
// `exit_thread` / `reenter_thread` exist for).
unsafe impl<T> Send for Mv<T> {}

fn hash_of<T: Hash>(v: &T) -> u64 {
	let mut h = DefaultHasher::new();
	v.hash(&mut h);
	h.finish()
}

fn ptr_of(h: &H) -> *const u8 {
	match h {
		H::S(s) => s.as_str().as_ptr(),
		H::B(b) => b.as_slice().as_ptr(),
	}
}

fn observe(slots: &[Option<H>]) -> Value {
	let mut out = Vec::new();
	for s in slots {
		out.push(match s {
			None => Value::Null,
			Some(H::S(s)) => {
				// counting through a temporary IBytes: one extra reference while we look
				let b = s.clone().cast_bytes();
				let rc = verif_strong_count(&b) - 1;
				drop(b);
				json!([1, rc, s.as_str().as_bytes()])
			}
			Some(H::B(b)) => json!([2, verif_strong_count(b), b.as_slice()]),
		});
	}
	let live: Vec<&H> = slots.iter().flatten().collect();
	let mut eq = String::new();
	let mut ok = true;
	for i in 0..live.len() {
		for j in i + 1..live.len() {
			let e = match (live[i], live[j]) {
				(H::S(a), H::S(b)) => {
					let e = a == b;
					if e != (b == a)
						|| (e && hash_of(a) != hash_of(b))
						|| e != (a.cmp(b) == std::cmp::Ordering::Equal)
						|| e != std::ptr::eq(ptr_of(live[i]), ptr_of(live[j]))
					{
						ok = false;
					}
					e
				}
				(H::B(a), H::B(b)) => {
					let e = a == b;
					if e != (b == a)
						|| (e && hash_of(a) != hash_of(b))
						|| e != (a.cmp(b) == std::cmp::Ordering::Equal)
						|| e != std::ptr::eq(ptr_of(live[i]), ptr_of(live[j]))
					{
						ok = false;
					}
					e
				}
				(a, b) => std::ptr::eq(ptr_of(a), ptr_of(b)),
			};
			eq.push(if e { '1' } else { '0' });
		}
	}
	json!({"pool": verif_pool_len(), "slots": out, "eq": eq, "ok": ok})
}

fn bytes_of(op: &[Value]) -> Vec<u8> {
	op[1..]
		.iter()
		.map(|v| v.as_u64().unwrap_or(0) as u8)
		.collect()
}

/// Runs ops[from..] on the current thread; a hand-over continues on a fresh thread.
fn run_from(mut slots: Vec<Option<H>>, ops: Vec<Value>, from: usize, mut steps: Vec<Value>) -> (Vec<Value>, usize) {
	let mut parked: Option<*mut interop::PoolState> = None;
	let mut k = from;
	while k < ops.len() {
		let op = ops[k].as_array().cloned().unwrap_or_default();
		let code = op.first().and_then(Value::as_u64).unwrap_or(99);
		let idx = op.get(1).and_then(Value::as_u64).unwrap_or(0) as usize;
		match code {
			0 => slots.push(Some(H::B(intern_bytes(&bytes_of(&op))))),
			1 => {
				if let Ok(s) = std::str::from_utf8(&bytes_of(&op)) {
					slots.push(Some(H::S(intern_str(s))));
				}
			}
			2 => {
				let n = match slots.get(idx) {
					Some(Some(H::S(s))) => Some(H::S(s.clone())),
					Some(Some(H::B(b))) => Some(H::B(b.clone())),
					_ => None,
				};
				if let Some(n) = n {
					slots.push(Some(n));
				}
			}
			3 => {
				if let Some(s) = slots.get_mut(idx) {
					drop(s.take());
				}
			}
			4 => {
				if matches!(slots.get(idx), Some(Some(H::S(_)))) {
					if let Some(H::S(s)) = slots[idx].take() {
						slots[idx] = Some(H::B(s.cast_bytes()));
					}
				}
			}
			5 => {
				if matches!(slots.get(idx), Some(Some(H::B(_)))) {
					if let Some(H::B(b)) = slots[idx].take() {
						slots[idx] = b.cast_str().map(H::S);
					}
				}
			}
			6 => {
				let st = interop::exit_thread();
				let payload = Mv((slots, ops, st, steps));
				let r = std::thread::Builder::new()
					.stack_size(16 * 1024 * 1024)
					.spawn(move || {
						let p = payload;
						let Mv((slots, ops, st, mut steps)) = p;
						// SAFETY: `st` comes from exit_thread above and is used exactly once.
						unsafe { interop::reenter_thread(st) };
						steps.push(observe(&slots));
						let r = catch_unwind(AssertUnwindSafe(|| run_from(slots, ops, k + 1, steps)));
						Mv(r.map_err(|_| {
							crate::util::LAST_PANIC
								.with(|p| p.borrow_mut().take())
								.unwrap_or_default()
						}))
					})
					.expect("spawn")
					.join();
				return match r {
					Ok(Mv(Ok(v))) => v,
					Ok(Mv(Err(m))) => panic!("after hand-over: {m}"),
					Err(_) => panic!("hand-over thread died"),
				};
			}
			7 => {
				if parked.is_none() {
					parked = Some(interop::exit_thread());
				}
			}
			8 => {
				if let Some(st) = parked.take() {
					// SAFETY: from exit_thread, used once.
					unsafe { interop::reenter_thread(st) };
				}
			}
			_ => {}
		}
		steps.push(observe(&slots));
		k += 1;
	}
	if let Some(st) = parked.take() {
		// SAFETY: from exit_thread, used once.
		unsafe { interop::reenter_thread(st) };
	}
	drop(slots);
	(steps, verif_pool_len())
}

pub fn handle(req: &Value) -> Value {
	let ops = req["ops"].as_array().cloned().unwrap_or_default();
	let base = verif_pool_len();
	let (steps, fin) = run_from(Vec::new(), ops, 0, Vec::new());
	json!({"steps": steps, "final_pool": fin, "base_pool": base})
}
