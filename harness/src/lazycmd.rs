//! `lazy`: evaluate a snippet to weak head normal form, then walk the result position by
//! position, recording a failing array element / object field IN PLACE instead of failing the
//! whole answer (C13: which positions of a std function's result are still unevaluated).
//!
//! request  {"code": str, "max_depth"?: n}
//! answer   {"ok": tree} | {"err": kind, "msg": text}            (the call itself failed)
//! tree     null | bool | string | {"#": bits} | {"f": nparams} | {"e": kind}      (failing position)
//!          | [tree, ...]                       elements through `ArrValue::get` (what `a[i]` calls)
//!          | {"o": [[name, hidden, tree], ...]} ALL fields in the order `fields_ex(true)` lists them
use jrsonnet_evaluator::{error::Error, trace::PathResolver, Result, State, Val};
use jrsonnet_stdlib::ContextInitializer;
use serde_json::{json, Value};

use crate::util::err_json;

fn pos_err(e: &Error) -> Value {
	let j = err_json(e);
	json!({"e": j["err"].clone()})
}

fn lazy_canon(v: &Val, depth: usize) -> Value {
	if depth == 0 {
		return json!({"deep": true});
	}
	match v {
		Val::Null => Value::Null,
		Val::Bool(b) => Value::Bool(*b),
		Val::Str(s) => Value::String(s.clone().into_flat().to_string()),
		Val::Num(n) => json!({"#": n.get().to_bits().to_string()}),
		Val::Arr(a) => {
			let mut out = Vec::with_capacity(a.len());
			for i in 0..a.len() {
				out.push(match a.get(i) {
					Ok(Some(e)) => lazy_canon(&e, depth - 1),
					Ok(None) => json!({"e": "OutOfBounds"}),
					Err(e) => pos_err(&e),
				});
			}
			Value::Array(out)
		}
		Val::Obj(o) => {
			let mut out = Vec::new();
			let visible = o.fields();
			for k in o.fields_ex(true) {
				let hidden = !visible.contains(&k);
				let t = match o.get(k.clone()) {
					Ok(Some(fv)) => lazy_canon(&fv, depth - 1),
					Ok(None) => json!({"e": "ListedFieldMissing"}),
					Err(e) => pos_err(&e),
				};
				out.push(json!([k.to_string(), hidden, t]));
			}
			json!({"o": out})
		}
		Val::Func(f) => json!({"f": f.params_len()}),
	}
}

pub fn handle(req: &Value) -> Value {
	let code = req["code"].as_str().unwrap_or("").to_owned();
	let depth = req["max_depth"].as_u64().unwrap_or(64) as usize;
	let std_ctx = ContextInitializer::new(PathResolver::new_cwd_fallback());
	let mut sb = State::builder();
	sb.context_initializer(std_ctx);
	let s = sb.build();
	let _g = s.enter();
	let run = || -> Result<Val> { s.evaluate_snippet("<c13>".to_owned(), code.as_str()) };
	match run() {
		Ok(v) => json!({"ok": lazy_canon(&v, depth)}),
		Err(e) => err_json(&e),
	}
}
