//! `manifest`: evaluate one snippet ONCE and push the value through several manifestation
//! formats (C05), then evaluate further snippets in the same State.
//!
//! request  {"code": str, "outs": ["default"|"minify"|"cli:<n>"|"tostring"|"string", ...],
//!           "also"?: [code, ...], "ext_str"?: {..}}
//! answer   {"canon": {"ok": tree}|{"err":..}, "outs": [{"ok": text}|{"err":..,"msg":..}|{"panic":..}, ...],
//!           "also": [{"ok": tree}|{"err":..}|{"panic":..}, ...]}
use std::panic::{catch_unwind, AssertUnwindSafe};

use jrsonnet_evaluator::{
	manifest::{JsonFormat, ManifestFormat, StringFormat, ToStringFormat},
	trace::PathResolver,
	Result, State, Val,
};
use jrsonnet_stdlib::ContextInitializer;
use serde_json::{json, Value};

use crate::util::{canon, err_json, LAST_PANIC};

fn one_out(val: &Val, out: &str) -> Result<String> {
	match out {
		"minify" => val.manifest(JsonFormat::minify()),
		"default" => val.manifest(JsonFormat::default()),
		"tostring" => val.manifest(ToStringFormat),
		"string" => val.manifest(StringFormat),
		o if o.starts_with("cli:") => {
			let n: usize = o[4..].parse().unwrap_or(3);
			JsonFormat::cli(n).manifest(val.clone())
		}
		_ => Ok(format!("unknown out {out}")),
	}
}

fn guarded(f: impl FnOnce() -> Result<Value>) -> Value {
	match catch_unwind(AssertUnwindSafe(f)) {
		Ok(Ok(v)) => json!({ "ok": v }),
		Ok(Err(e)) => err_json(&e),
		Err(_) => json!({"panic": LAST_PANIC.with(|p| p.borrow_mut().take()).unwrap_or_default()}),
	}
}

pub fn handle(req: &Value) -> Value {
	let code = req["code"].as_str().unwrap_or("").to_owned();
	let std_ctx = ContextInitializer::new(PathResolver::new_cwd_fallback());
	if let Some(Value::Object(m)) = req.get("ext_str") {
		for (k, v) in m {
			std_ctx.add_ext_str(k.as_str().into(), v.as_str().unwrap_or("").into());
		}
	}
	let mut sb = State::builder();
	sb.context_initializer(std_ctx);
	let s = sb.build();
	let _g = s.enter();

	let mut outs = Vec::new();
	let canon_res;
	match catch_unwind(AssertUnwindSafe(|| s.evaluate_snippet("<cmdline>".to_owned(), code.as_str()))) {
		Ok(Ok(val)) => {
			canon_res = guarded(|| canon(&val));
			if let Some(Value::Array(names)) = req.get("outs") {
				for n in names {
					let n = n.as_str().unwrap_or("");
					outs.push(guarded(|| one_out(&val, n).map(Value::String)));
				}
			}
		}
		Ok(Err(e)) => canon_res = err_json(&e),
		Err(_) => {
			canon_res =
				json!({"panic": LAST_PANIC.with(|p| p.borrow_mut().take()).unwrap_or_default()});
		}
	}
	let mut also = Vec::new();
	if let Some(Value::Array(codes)) = req.get("also") {
		for c in codes {
			let c = c.as_str().unwrap_or("").to_owned();
			also.push(guarded(|| {
				let v = s.evaluate_snippet("<also>".to_owned(), c.as_str())?;
				canon(&v)
			}));
		}
	}
	json!({"canon": canon_res, "outs": outs, "also": also})
}
