//! `imports`: C07.  Runs a history of import operations on ONE `State` whose resolver is a
//! recording, fault-injecting wrapper around the real `FileImportResolver`, inside a directory
//! tree prepared by the check, and reports per-operation results plus the chronological log of
//! resolve / load calls and std.trace labels.
//!
//! request  {"root": abs canonical dir, "cwd": dir relative to root, "jpaths": [abs dir strings],
//!           "faults": [k, ...]  (0-based index over all resolver calls of the history),
//!           "ops": [{"kind": "import"|"importstr"|"importbin", "path": str, "sel": "v"|"lz0"..,
//!                    "from": "default"|"noj"|"dir:<rel>"}, ...]}
//!       or {"clipath": {"root":.., "cwd":.., "jflags": [..], "env": str|null, "names": [..]}}
//! answer   {"results": [{"num": bits}|{"str": hex}|{"bin": hex}|{"err": kind}|{"panic":..}],
//!           "log": [["resolve", from, path, outcome] | ["load", path, outcome] | ["trace", label]],
//!           "calls": n}
use std::{
	cell::{Cell, RefCell},
	path::{Path, PathBuf},
	rc::Rc,
};

use clap::Parser;
use jrsonnet_cli::MiscOpts;
use jrsonnet_evaluator::{
	error::ErrorKind, function::CallLocation, trace::PathResolver, AsPathLike, FileImportResolver,
	IStr, ImportResolver, Result, State, Val,
};
use jrsonnet_gcmodule::Acyclic;
use jrsonnet_ir::{SourceDefaultIgnoreJpath, SourceDirectory, SourceFile, SourcePath};
use jrsonnet_stdlib::{ContextInitializer, TracePrinter};
use serde_json::{json, Value};

use crate::util::err_json;

type Log = Rc<RefCell<Vec<Value>>>;

fn rel(root: &str, p: &Path) -> String {
	let s = p.to_string_lossy().to_string();
	match s.strip_prefix(root) {
		Some(r) => r.trim_start_matches('/').to_owned(),
		None => format!("ABS:{s}"),
	}
}

fn src_name(root: &str, s: &SourcePath) -> String {
	if let Some(f) = s.downcast_ref::<SourceFile>() {
		format!("file:{}", rel(root, f.path()))
	} else if let Some(d) = s.downcast_ref::<SourceDirectory>() {
		format!("dir:{}", rel(root, d.path()))
	} else if s.downcast_ref::<SourceDefaultIgnoreJpath>().is_some() {
		"noj".to_owned()
	} else if s.is_default() {
		"default".to_owned()
	} else {
		format!("other:{s}")
	}
}

fn err_name(e: &jrsonnet_evaluator::error::Error) -> String {
	err_json(e)["err"].as_str().unwrap_or("?").to_owned()
}

#[derive(Acyclic)]
struct Recording {
	inner: FileImportResolver,
	log: Log,
	calls: Rc<Cell<u64>>,
	faults: Vec<u64>,
	root: String,
}
impl Recording {
	fn tick(&self) -> bool {
		let k = self.calls.get();
		self.calls.set(k + 1);
		self.faults.contains(&k)
	}
}
impl ImportResolver for Recording {
	fn resolve_from(&self, from: &SourcePath, path: &dyn AsPathLike) -> Result<SourcePath> {
		let injected = self.tick();
		let r = if injected {
			Err(ErrorKind::ImportIo("injected fault".to_owned()).into())
		} else {
			self.inner.resolve_from(from, path)
		};
		let p = path.as_path();
		let p: &Path = p.as_ref();
		let out = match &r {
			Ok(sp) => format!("ok:{}", src_name(&self.root, sp)),
			Err(_) if injected => "err:INJECTED".to_owned(),
			Err(e) => format!("err:{}", err_name(e)),
		};
		self.log.borrow_mut().push(json!([
			"resolve",
			src_name(&self.root, from),
			p.to_string_lossy(),
			out
		]));
		r
	}
	fn resolve_from_default(&self, path: &dyn AsPathLike) -> Result<SourcePath> {
		self.resolve_from(&SourcePath::default(), path)
	}
	fn load_file_contents(&self, resolved: &SourcePath) -> Result<Vec<u8>> {
		let injected = self.tick();
		let r = if injected {
			Err(ErrorKind::ImportIo("injected fault".to_owned()).into())
		} else {
			self.inner.load_file_contents(resolved)
		};
		let out = match &r {
			Ok(_) => "ok".to_owned(),
			Err(_) if injected => "err:INJECTED".to_owned(),
			Err(e) => format!("err:{}", err_name(e)),
		};
		self.log
			.borrow_mut()
			.push(json!(["load", src_name(&self.root, resolved), out]));
		r
	}
}

#[derive(Acyclic)]
struct LogTrace(Log);
impl TracePrinter for LogTrace {
	fn print_trace(&self, _loc: CallLocation, value: IStr) {
		self.0.borrow_mut().push(json!(["trace", value.to_string()]));
	}
}

fn hex(b: &[u8]) -> String {
	let mut s = String::with_capacity(b.len() * 2);
	for x in b {
		s.push_str(&format!("{x:02x}"));
	}
	s
}

fn select(v: Val, sel: &str) -> Result<Val> {
	match v {
		Val::Obj(o) => match o.get(sel.into())? {
			Some(v) => Ok(v),
			None => Err(ErrorKind::NoSuchField(sel.into(), vec![]).into()),
		},
		_ => Err(ErrorKind::RuntimeError("imported value is not an object".into()).into()),
	}
}

fn out_val(v: &Val) -> Value {
	match v {
		Val::Num(n) => json!({"num": n.get().to_bits().to_string()}),
		Val::Str(s) => json!({"str": hex(s.clone().into_flat().as_bytes())}),
		Val::Arr(a) => {
			let mut b = Vec::new();
			for e in a.iter() {
				match e {
					Ok(Val::Num(n)) => b.push(n.get() as u8),
					_ => return json!({"other": "array element"}),
				}
			}
			json!({"bin": hex(&b)})
		}
		_ => json!({"other": v.value_type().name()}),
	}
}

fn one_op(s: &State, root: &str, op: &Value) -> Value {
	let kind = op["kind"].as_str().unwrap_or("import");
	let path = op["path"].as_str().unwrap_or("");
	let sel = op["sel"].as_str().unwrap_or("v");
	let from_s = op["from"].as_str().unwrap_or("default");
	let r: Result<Val> = if from_s != "default" {
		let from = match from_s.strip_prefix("dir:") {
			Some(d) => SourcePath::new(SourceDirectory::new(Path::new(root).join(d))),
			None => SourcePath::new(SourceDefaultIgnoreJpath),
		};
		match kind {
			"import" => s.import_from(&from, path).and_then(|v| select(v, sel)),
			"importstr" => s
				.resolve_from(&from, &path)
				.and_then(|p| s.import_resolved_str(p))
				.map(Val::string),
			_ => s
				.resolve_from(&from, &path)
				.and_then(|p| s.import_resolved_bin(p))
				.map(|b| Val::Arr(jrsonnet_evaluator::val::ArrValue::bytes(b))),
		}
	} else {
		let lit = serde_json::to_string(path).expect("string literal");
		let code = match kind {
			"import" => format!("(import {lit}).{sel}"),
			"importstr" => format!("importstr {lit}"),
			_ => format!("importbin {lit}"),
		};
		s.evaluate_snippet("<op>", code)
	};
	match r {
		Ok(v) => out_val(&v),
		Err(e) => json!({"err": err_name(&e)}),
	}
}

fn clipath(req: &Value) -> Value {
	let root = req["root"].as_str().unwrap_or("").to_owned();
	let cwd = Path::new(&root).join(req["cwd"].as_str().unwrap_or(""));
	if let Err(e) = std::env::set_current_dir(&cwd) {
		return json!({"harness_error": format!("chdir: {e}")});
	}
	let mut args = vec!["x".to_owned()];
	if let Some(Value::Array(js)) = req.get("jflags") {
		for j in js {
			args.push("-J".to_owned());
			args.push(j.as_str().unwrap_or("").to_owned());
		}
	}
	match req["env"].as_str() {
		Some(v) => std::env::set_var("JSONNET_PATH", v),
		None => std::env::remove_var("JSONNET_PATH"),
	}
	let opts = match MiscOpts::try_parse_from(args) {
		Ok(o) => o,
		Err(e) => return json!({"harness_error": format!("clap: {e}")}),
	};
	let resolver = opts.import_resolver();
	std::env::remove_var("JSONNET_PATH");
	let mut out = Vec::new();
	if let Some(Value::Array(names)) = req.get("names") {
		for n in names {
			let n = n.as_str().unwrap_or("");
			out.push(match resolver.resolve_from(&SourcePath::default(), &n) {
				Ok(sp) => format!("ok:{}", src_name(&root, &sp)),
				Err(e) => format!("err:{}", err_name(&e)),
			});
		}
	}
	json!({"resolved": out})
}

pub fn handle(req: &Value) -> Value {
	if let Some(c) = req.get("clipath") {
		return clipath(c);
	}
	let root = req["root"].as_str().unwrap_or("").to_owned();
	let cwd = Path::new(&root).join(req["cwd"].as_str().unwrap_or(""));
	if let Err(e) = std::env::set_current_dir(&cwd) {
		return json!({"harness_error": format!("chdir {}: {e}", cwd.display())});
	}
	let jpaths: Vec<PathBuf> = req["jpaths"]
		.as_array()
		.map(|a| {
			a.iter()
				.map(|v| PathBuf::from(v.as_str().unwrap_or("")))
				.collect()
		})
		.unwrap_or_default();
	let faults: Vec<u64> = req["faults"]
		.as_array()
		.map(|a| a.iter().filter_map(Value::as_u64).collect())
		.unwrap_or_default();
	let log: Log = Rc::new(RefCell::new(Vec::new()));
	let calls = Rc::new(Cell::new(0u64));

	let std_ctx = ContextInitializer::new(PathResolver::new_cwd_fallback());
	std_ctx.settings_mut().trace_printer = Rc::new(LogTrace(log.clone()));
	let mut sb = State::builder();
	sb.context_initializer(std_ctx).import_resolver(Recording {
		inner: FileImportResolver::new(jpaths),
		log: log.clone(),
		calls: calls.clone(),
		faults,
		root: root.clone(),
	});
	let s = sb.build();
	let _g = s.enter();

	let mut results = Vec::new();
	let mut marks = Vec::new();
	if let Some(Value::Array(ops)) = req.get("ops") {
		for op in ops {
			let o = std::panic::catch_unwind(std::panic::AssertUnwindSafe(|| one_op(&s, &root, op)));
			results.push(match o {
				Ok(v) => v,
				Err(_) => json!({"panic": crate::util::LAST_PANIC
					.with(|p| p.borrow_mut().take())
					.unwrap_or_default()}),
			});
			marks.push(calls.get());
		}
	}
	let logv = log.borrow().clone();
	json!({"results": results, "log": logv, "calls": calls.get(), "marks": marks})
}
