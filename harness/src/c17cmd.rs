//! C17 subcommands: direct probes of the lexer, the rowan tree, the ir-/peg-parser spans and
//! the byte offset -> line/column mapper.
//!
//! `lex`   {"text"}             -> {"toks": [[kind, start, end], ...]}
//! `rowan` {"text"}             -> {"same": bool, "tree": text-if-different, "errors": n,
//!                                  "leaves_match": bool, "nleaves": n, "nlex": n}
//! `spans` {"text", "parser"}   -> {"ok": [[start, end], ...]} | {"err": offset}
//! `loc`   {"text", "offsets"}  -> {"locs": [[offset, line, column, line_start, line_end], ...]}
//! `errjs` {"code"}             -> {"js": JsFormat rendering of the error} | {"ok": null}
use jrsonnet_ir::Source;
use jrsonnet_rowan_parser::AstNode;
use serde_json::{json, Value};

const MARK: &str = "\u{1}C17SRC\u{1}";

pub fn lex(req: &Value) -> Value {
	let text = req["text"].as_str().unwrap_or("");
	let toks: Vec<Value> = jrsonnet_lexer::Lexer::new(text)
		.map(|l| json!([format!("{:?}", l.kind), l.range.0, l.range.1]))
		.collect();
	json!({ "toks": toks })
}

pub fn rowan(req: &Value) -> Value {
	let text = req["text"].as_str().unwrap_or("");
	let (file, errors) = jrsonnet_rowan_parser::parse(text);
	let tree = file.syntax().to_string();
	let same = tree == text;
	// leaves of the tree in order vs. the lexer's lexemes
	let lexemes: Vec<(u16, String)> = jrsonnet_lexer::Lexer::new(text)
		.map(|l| (l.kind.into_raw(), l.text.to_owned()))
		.collect();
	let mut leaves: Vec<(u16, String)> = Vec::new();
	let mut ranges_ok = true;
	let mut pos: u32 = 0;
	for el in file.syntax().descendants_with_tokens() {
		if let Some(t) = el.as_token() {
			let r = t.text_range();
			if u32::from(r.start()) != pos {
				ranges_ok = false;
			}
			pos = u32::from(r.end());
			leaves.push((t.kind().into_raw(), t.text().to_owned()));
		}
	}
	let root = file.syntax().text_range();
	if u32::from(root.start()) != 0 || u32::from(root.end()) as usize != text.len() {
		ranges_ok = false;
	}
	let mut err_ranges_ok = true;
	for e in &errors {
		let (s, t) = (u32::from(e.range.start()) as usize, u32::from(e.range.end()) as usize);
		if s > t || t > text.len() || !text.is_char_boundary(s) || !text.is_char_boundary(t) {
			err_ranges_ok = false;
		}
	}
	let mut out = json!({
		"same": same,
		"errors": errors.len(),
		"leaves_match": leaves == lexemes,
		"leaf_texts_match": leaves.iter().map(|l| &l.1).eq(lexemes.iter().map(|l| &l.1)),
		"ranges_ok": ranges_ok,
		"err_ranges_ok": err_ranges_ok,
		"nleaves": leaves.len(),
		"nlex": lexemes.len(),
	});
	if !same {
		out["tree"] = Value::String(tree);
	}
	out
}

fn collect_spans(dbg: &str) -> Vec<Value> {
	let pat = format!("virtual:{MARK}:");
	let mut out = Vec::new();
	let mut rest = dbg;
	while let Some(i) = rest.find(&pat) {
		rest = &rest[i + pat.len()..];
		let a: String = rest.chars().take_while(char::is_ascii_digit).collect();
		let r2 = &rest[a.len()..];
		if let Some(r3) = r2.strip_prefix('-') {
			let b: String = r3.chars().take_while(char::is_ascii_digit).collect();
			if let (Ok(a), Ok(b)) = (a.parse::<u64>(), b.parse::<u64>()) {
				out.push(json!([a, b]));
			}
		}
	}
	out
}

pub fn spans(req: &Value) -> Value {
	let text = req["text"].as_str().unwrap_or("");
	if text.contains(MARK) {
		return json!({"harness_error": "marker in input"});
	}
	let source = Source::new_virtual(MARK.into(), text.into());
	let parser = req["parser"].as_str().unwrap_or("ir");
	let dbg = if parser == "peg" {
		match jrsonnet_peg_parser::parse(text, &jrsonnet_peg_parser::ParserSettings { source }) {
			Ok(e) => format!("{e:?}"),
			Err(e) => return json!({"err": e.location.offset}),
		}
	} else {
		match jrsonnet_ir_parser::parse(text, &jrsonnet_ir_parser::ParserSettings { source }) {
			Ok(e) => format!("{e:?}"),
			Err(e) => return json!({"err": e.location.offset}),
		}
	};
	json!({"ok": collect_spans(&dbg)})
}

fn guarded(f: fn(&Value) -> Value, req: &Value) -> Value {
	match std::panic::catch_unwind(std::panic::AssertUnwindSafe(|| f(req))) {
		Ok(v) => v,
		Err(_) => json!({"panic": crate::util::LAST_PANIC
			.with(|p| p.borrow_mut().take())
			.unwrap_or_default()}),
	}
}

/// `textall` {"text"} -> {"lex":.., "rowan":.., "ir":.., "peg":..}: the three text probes in one
/// request, each under its own catch_unwind.
pub fn textall(req: &Value) -> Value {
	let mut peg = req.clone();
	peg["parser"] = Value::String("peg".into());
	let mut ir = req.clone();
	ir["parser"] = Value::String("ir".into());
	json!({
		"lex": guarded(lex, req),
		"rowan": guarded(rowan, req),
		"ir": guarded(spans, &ir),
		"peg": guarded(spans, &peg),
	})
}

pub fn loc(req: &Value) -> Value {
	let text = req["text"].as_str().unwrap_or("");
	let offs: Vec<u32> = req["offsets"]
		.as_array()
		.map(|a| a.iter().map(|v| v.as_u64().unwrap_or(0) as u32).collect())
		.unwrap_or_default();
	let source = Source::new_virtual("c17".into(), text.into());
	let locs: Vec<jrsonnet_ir::CodeLocation> = match offs.len() {
		0 => source.map_source_locations::<0>(&[]).to_vec(),
		1 => source.map_source_locations(&[offs[0]]).to_vec(),
		2 => source.map_source_locations(&[offs[0], offs[1]]).to_vec(),
		3 => source
			.map_source_locations(&[offs[0], offs[1], offs[2]])
			.to_vec(),
		4 => source
			.map_source_locations(&[offs[0], offs[1], offs[2], offs[3]])
			.to_vec(),
		_ => return json!({"harness_error": "at most 4 offsets"}),
	};
	let out: Vec<Value> = locs
		.iter()
		.map(|l| {
			json!([
				l.offset,
				l.line,
				l.column,
				l.line_start_offset,
				l.line_end_offset
			])
		})
		.collect();
	json!({ "locs": out })
}

/// Evaluate a snippet and render the error with `JsFormat` (the format libjsonnet's
/// `jrsonnet_set_trace_format(vm, 1)` selects): "    at <desc> (<path>:<line>:<column>)".
pub fn errjs(req: &Value) -> Value {
	use jrsonnet_evaluator::{
		trace::{JsFormat, PathResolver, TraceFormat},
		State,
	};
	let code = req["code"].as_str().unwrap_or("").to_owned();
	let mut sb = State::builder();
	sb.context_initializer(jrsonnet_stdlib::ContextInitializer::new(
		PathResolver::new_cwd_fallback(),
	));
	let s = sb.build();
	let _g = s.enter();
	match s.evaluate_snippet("<cmdline>".to_owned(), code.as_str()) {
		Ok(_) => json!({"ok": null}),
		Err(e) => json!({"js": JsFormat { max_trace: 20 }.format(&e).unwrap_or_default()}),
	}
}
