//! `arrprobe_at` option of `eval` (C08): probe an array value at the given indices through ALL THREE
//! `ArrayLike` accessors (`get`, `get_lazy` + evaluation of the thunk, `get_cheap`), each under its
//! own `catch_unwind`.
//! answer {"len": "<usize>", "is_cheap": bool,
//!         "at": [{"i": "<usize>", "get": R, "lazy": R, "cheap": R}, ..]}
//! with R = null (None) | {"v": canon} | {"err": ..} | {"panic": ..}
use jrsonnet_evaluator::{val::ArrayLike, Val};
use serde_json::{json, Value};

use crate::util::{canon, err_json};

fn guard<T>(f: impl FnOnce() -> T) -> Result<T, Value> {
	std::panic::catch_unwind(std::panic::AssertUnwindSafe(f)).map_err(|_| {
		json!({"panic": crate::util::LAST_PANIC
			.with(|p| p.borrow_mut().take())
			.unwrap_or_default()})
	})
}

fn show(v: &Val) -> Value {
	match canon(v) {
		Ok(c) => json!({"v": c}),
		Err(e) => err_json(&e),
	}
}

pub fn probe_at(val: &Val, idx: &[Value]) -> Value {
	let Val::Arr(a) = val else {
		return json!({"notarr": val.value_type().name()});
	};
	let len = a.len();
	let mut at = Vec::new();
	for i in idx {
		let Some(i) = i
			.as_u64()
			.or_else(|| i.as_str().and_then(|s| s.parse::<u64>().ok()))
		else {
			continue;
		};
		let i = i as usize;
		let get = match guard(|| a.get(i)) {
			Ok(Ok(Some(v))) => show(&v),
			Ok(Ok(None)) => Value::Null,
			Ok(Err(e)) => err_json(&e),
			Err(p) => p,
		};
		let lazy = match guard(|| a.get_lazy(i)) {
			Ok(Some(t)) => match guard(|| t.evaluate()) {
				Ok(Ok(v)) => show(&v),
				Ok(Err(e)) => err_json(&e),
				Err(p) => p,
			},
			Ok(None) => Value::Null,
			Err(p) => p,
		};
		let cheap = match guard(|| <_ as ArrayLike>::get_cheap(a, i)) {
			Ok(Some(v)) => show(&v),
			Ok(None) => Value::Null,
			Err(p) => p,
		};
		at.push(json!({"i": i.to_string(), "get": get, "lazy": lazy, "cheap": cheap}));
	}
	json!({"len": len.to_string(), "is_cheap": a.is_cheap(), "at": at})
}
