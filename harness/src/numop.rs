//! `numop` (C09): dense all-pairs sweep of the numeric operators through the evaluator's
//! public operator entry points, operands and results as IEEE-754 bit patterns.
//!
//! request  {"d": ["<bits>", ...], "a": [index into d, ...]}
//! answer   {"ok": [{"un": [r_plus, r_minus, r_bitnot], "bin": [[r_op0, r_op1, ...] for each b in d]} ...]}
//! where r is "<bits>" for a number, true/false for a boolean, "E:<Kind>" for a Jsonnet
//! error, "P:<where>" for a panic, "NF:<bits>" for a non-finite number that escaped.
//! Operator order: + - * / % < <= > >= == != & | ^ << >>
use std::panic::{catch_unwind, AssertUnwindSafe};

use jrsonnet_evaluator::{
	operator::{evaluate_binary_op_normal, evaluate_unary_op},
	val::NumValue,
	Result, Val,
};
use jrsonnet_ir::{BinaryOpType, UnaryOpType};
use serde_json::{json, Value};

use crate::util::LAST_PANIC;

const BIN: [BinaryOpType; 16] = [
	BinaryOpType::Add,
	BinaryOpType::Sub,
	BinaryOpType::Mul,
	BinaryOpType::Div,
	BinaryOpType::Mod,
	BinaryOpType::Lt,
	BinaryOpType::Lte,
	BinaryOpType::Gt,
	BinaryOpType::Gte,
	BinaryOpType::Eq,
	BinaryOpType::Neq,
	BinaryOpType::BitAnd,
	BinaryOpType::BitOr,
	BinaryOpType::BitXor,
	BinaryOpType::Lhs,
	BinaryOpType::Rhs,
];
const UN: [UnaryOpType; 3] = [UnaryOpType::Plus, UnaryOpType::Minus, UnaryOpType::BitNot];

fn outcome(r: std::thread::Result<Result<Val>>) -> Value {
	match r {
		Ok(Ok(Val::Num(n))) => {
			let f = n.get();
			if f.is_finite() {
				Value::String(f.to_bits().to_string())
			} else {
				Value::String(format!("NF:{}", f.to_bits()))
			}
		}
		Ok(Ok(Val::Bool(b))) => Value::Bool(b),
		Ok(Ok(v)) => Value::String(format!("T:{}", v.value_type().name())),
		Ok(Err(e)) => {
			let dbg = format!("{:?}", e.error());
			let name: String = dbg
				.chars()
				.take_while(|c| c.is_alphanumeric() || *c == '_')
				.collect();
			Value::String(format!("E:{name}"))
		}
		Err(_) => Value::String(format!(
			"P:{}",
			LAST_PANIC
				.with(|p| p.borrow_mut().take())
				.unwrap_or_default()
		)),
	}
}

fn num(bits: &Value) -> Option<Val> {
	let b: u64 = bits.as_str()?.parse().ok()?;
	Some(Val::Num(NumValue::new(f64::from_bits(b))?))
}

pub fn handle(req: &Value) -> Value {
	let Some(d) = req["d"].as_array() else {
		return json!({"harness_error": "numop: d missing"});
	};
	let mut vals = Vec::with_capacity(d.len());
	for x in d {
		match num(x) {
			Some(v) => vals.push(v),
			None => return json!({"harness_error": format!("numop: bad operand {x}")}),
		}
	}
	let mut out = Vec::new();
	for ai in req["a"].as_array().map(Vec::as_slice).unwrap_or(&[]) {
		let Some(a) = ai.as_u64().and_then(|i| vals.get(i as usize)) else {
			return json!({"harness_error": "numop: bad index"});
		};
		let un: Vec<Value> = UN
			.iter()
			.map(|op| outcome(catch_unwind(AssertUnwindSafe(|| evaluate_unary_op(*op, a)))))
			.collect();
		let mut bin = Vec::with_capacity(vals.len());
		for b in &vals {
			let row: Vec<Value> = BIN
				.iter()
				.map(|op| {
					outcome(catch_unwind(AssertUnwindSafe(|| {
						evaluate_binary_op_normal(a, *op, b)
					})))
				})
				.collect();
			bin.push(Value::Array(row));
		}
		out.push(json!({"un": un, "bin": bin}));
	}
	json!({"ok": out})
}
