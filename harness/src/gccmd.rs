//! `gc`: evaluate a program repeatedly on one worker thread and measure what the cycle
//! collector and the interner still hold once result and `State` are dropped (C18).
//!
//! request  = an `eval` request (see evalcmd.rs) + "runs"?: n (default 3) + "warm"?: code
//! answer   {"tracked": [t_base, t_1, .., t_n], "pool": [p_base, p_1, .., p_n],
//!           "collected": [..], "res": [<eval answer class>, ..]}
//!          t_base / p_base are taken after evaluating the generic warm-up program (thread
//!          locals such as the empty object exist from then on); t_k / p_k after the k-th
//!          evaluation of the program, each followed by dropping everything and
//!          `collect_thread_cycles()`.
use serde_json::{json, Value};

fn class(v: &Value) -> Value {
	if v.get("ok").is_some() {
		json!("ok")
	} else if let Some(e) = v.get("err") {
		e.clone()
	} else if v.get("panic").is_some() {
		json!("panic")
	} else {
		json!("?")
	}
}

fn settle() -> (usize, usize, usize) {
	let collected = jrsonnet_gcmodule::collect_thread_cycles();
	// a second pass must find nothing: collection is complete in one pass
	let again = jrsonnet_gcmodule::collect_thread_cycles();
	(
		jrsonnet_gcmodule::count_thread_tracked(),
		collected,
		again,
	)
}

pub fn handle(req: &Value) -> Value {
	let runs = req["runs"].as_u64().unwrap_or(3) as usize;
	let warm = req["warm"]
		.as_str()
		.unwrap_or("local o = {a: 1, b: self.a}; [o.b, std.length([1])]");
	let _ = crate::evalcmd::handle(&json!({"code": warm}));
	let (t, _, _) = settle();
	let mut tracked = vec![t];
	let mut pool = vec![jrsonnet_interner::verif_pool_len()];
	let mut collected = Vec::new();
	let mut second = Vec::new();
	let mut res = Vec::new();
	for _ in 0..runs {
		let r = crate::evalcmd::handle(req);
		res.push(class(&r));
		drop(r);
		let (t, c, a) = settle();
		tracked.push(t);
		collected.push(c);
		second.push(a);
		pool.push(jrsonnet_interner::verif_pool_len());
	}
	json!({"tracked": tracked, "pool": pool, "collected": collected, "second_pass": second, "res": res})
}
